package main

// Intrinsics added for C14 (nsqlookupd registry).

import (
	"fmt"
	"go/token"
)

func init() {
	// (*strings.Builder).copyCheck only detects a Builder that was copied by value after first
	// use (it stores its own address through unsafe.Pointer -> uintptr). No code under test
	// copies a Builder, so the check is a no-op here. Needed by net/url.unescape ('%23' in
	// "topic=e%23ephemeral").
	intrinsics["(*strings.Builder).copyCheck"] = func(in *Interp, fr *frame, args []value) value { return nil }

	// verifrt.ClockSteps(bits): opt-in clock model "previous reading + fresh unsigned step".
	// The stock model hands out unrelated 64-bit variables tied together by bvsle side
	// constraints; proving anything about differences of such readings makes z3 reason about
	// 64-bit order chains (0.3-0.6 s per unsat query). With steps, monotonicity is structural and
	// differences are sums of small steps (about 6x faster). A variable clock#N equal to the
	// reading is still declared so that the replay file carries the readings as before.
	// Harnesses that do not call ClockSteps are unaffected.
	const flag = "c14.clocksteps"
	intrinsics[rtPkg+"ClockSteps"] = func(in *Interp, fr *frame, args []value) value {
		in.ghost[flag] = int(args[0].(*Term).sval())
		in.h.Bounds["clock-step-bits"] = args[0].(*Term).sval()
		return nil
	}
	stepNow := func(in *Interp, bits int) value {
		tt := in.tt
		in.clockN++
		v := in.freshNamed(fmt.Sprintf("clock#%d", in.clockN), 64)
		d := in.freshNamed(fmt.Sprintf("clockstep#%d", in.clockN), bits)
		base := in.clockLast
		if base == nil {
			base = tt.Const(64, 1356998400000000000)
			if in.clockLo != nil {
				base = in.clockLo
			}
		}
		e := tt.Add(base, tt.ZExt(d, 64))
		in.pc = append(in.pc, tt.Eq(v, e))
		in.model = nil
		in.clockLast = e
		return in.mkTime(e)
	}
	wrap := func(name string, f func(in *Interp, now value, args []value) value) {
		orig := intrinsics[name]
		if orig == nil {
			return
		}
		intrinsics[name] = func(in *Interp, fr *frame, args []value) value {
			bits, on := in.ghost[flag].(int)
			if !on {
				return orig(in, fr, args)
			}
			return f(in, stepNow(in, bits), args)
		}
	}
	now := func(in *Interp, now value, args []value) value { return now }
	since := func(in *Interp, now value, args []value) value { return in.tt.Sub(timeNS(now), timeNS(args[0])) }
	until := func(in *Interp, now value, args []value) value { return in.tt.Sub(timeNS(args[0]), timeNS(now)) }
	// sync.Map contract model (the real one is built on atomic.Pointer / unsafe): an association
	// list per map address, keys compared with Go interface equality (concrete values only).
	// Used by nsqlookupd's tcpServer.conns (Store / Delete / Range). No preemption point is
	// modelled inside these calls: the map is internally synchronised and each call is atomic.
	type smEntry struct{ k, v value }
	smKey := func(args []value) string { return fmt.Sprintf("c14.syncmap:%p", args[0].(*value)) }
	smGet := func(in *Interp, args []value) []smEntry {
		l, _ := in.ghost[smKey(args)].([]smEntry)
		return l
	}
	smFind := func(in *Interp, l []smEntry, k value) int {
		for i, e := range l {
			eq := in.eqVal(nil, e.k, k)
			if !eq.IsConst() {
				in.unsupported("sync.Map key comparison on symbolic values")
			}
			if eq.val != 0 {
				return i
			}
		}
		return -1
	}
	intrinsics["(*sync.Map).Store"] = func(in *Interp, fr *frame, args []value) value {
		l := smGet(in, args)
		if i := smFind(in, l, args[1]); i >= 0 {
			l[i].v = args[2]
		} else {
			l = append(l, smEntry{args[1], args[2]})
		}
		in.ghost[smKey(args)] = l
		return nil
	}
	intrinsics["(*sync.Map).Load"] = func(in *Interp, fr *frame, args []value) value {
		l := smGet(in, args)
		if i := smFind(in, l, args[1]); i >= 0 {
			return tuple{l[i].v, in.tt.True}
		}
		return tuple{iface{}, in.tt.False}
	}
	intrinsics["(*sync.Map).Delete"] = func(in *Interp, fr *frame, args []value) value {
		l := smGet(in, args)
		if i := smFind(in, l, args[1]); i >= 0 {
			n := append([]smEntry{}, l[:i]...)
			n = append(n, l[i+1:]...)
			in.ghost[smKey(args)] = n
		}
		return nil
	}
	intrinsics["(*sync.Map).Range"] = func(in *Interp, fr *frame, args []value) value {
		for _, e := range append([]smEntry{}, smGet(in, args)...) {
			r := in.call(fr, token.NoPos, args[1], []value{e.k, e.v})
			if t, ok := r.(*Term); ok && t.IsConst() && t.val == 0 {
				break
			}
		}
		return nil
	}

	wrap("time.Now", now)
	wrap(rtPkg+"Now", now)
	wrap("time.Since", since)
	wrap(rtPkg+"Since", since)
	wrap("time.Until", until)
}
