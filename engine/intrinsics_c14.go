package main

// Intrinsics added for C14 (nsqlookupd registry).

import "fmt"

func init() {
	// (*strings.Builder).copyCheck only detects a Builder that was copied by value after first
	// use (it stores its own address through unsafe.Pointer -> uintptr). No code under test
	// copies a Builder, so the check is a no-op here. Needed by net/url.unescape ('%23' in
	// "topic=e%23ephemeral").
	intrinsics["(*strings.Builder).copyCheck"] = func(in *Interp, fr *frame, args []value) value { return nil }

	// verifrt.ClockSteps(bits): opt-in clock model "previous reading + fresh unsigned step".
	// The stock model hands out unrelated 64-bit variables tied together by bvsle side
	// constraints; proving anything about differences of such readings makes z3 reason about
	// 64-bit order chains (0.3-0.6 s per unsat query). With steps, monotonicity is structural and
	// differences are sums of small steps (about 6x faster). A variable clock#N equal to the
	// reading is still declared so that the replay file carries the readings as before.
	// Harnesses that do not call ClockSteps are unaffected.
	const flag = "c14.clocksteps"
	intrinsics[rtPkg+"ClockSteps"] = func(in *Interp, fr *frame, args []value) value {
		in.ghost[flag] = int(args[0].(*Term).sval())
		in.h.Bounds["clock-step-bits"] = args[0].(*Term).sval()
		return nil
	}
	stepNow := func(in *Interp, bits int) value {
		tt := in.tt
		in.clockN++
		v := in.freshNamed(fmt.Sprintf("clock#%d", in.clockN), 64)
		d := in.freshNamed(fmt.Sprintf("clockstep#%d", in.clockN), bits)
		base := in.clockLast
		if base == nil {
			base = tt.Const(64, 1356998400000000000)
			if in.clockLo != nil {
				base = in.clockLo
			}
		}
		e := tt.Add(base, tt.ZExt(d, 64))
		in.pc = append(in.pc, tt.Eq(v, e))
		in.model = nil
		in.clockLast = e
		return in.mkTime(e)
	}
	wrap := func(name string, f func(in *Interp, now value, args []value) value) {
		orig := intrinsics[name]
		if orig == nil {
			return
		}
		intrinsics[name] = func(in *Interp, fr *frame, args []value) value {
			bits, on := in.ghost[flag].(int)
			if !on {
				return orig(in, fr, args)
			}
			return f(in, stepNow(in, bits), args)
		}
	}
	now := func(in *Interp, now value, args []value) value { return now }
	since := func(in *Interp, now value, args []value) value { return in.tt.Sub(timeNS(now), timeNS(args[0])) }
	until := func(in *Interp, now value, args []value) value { return in.tt.Sub(timeNS(args[0]), timeNS(now)) }
	wrap("time.Now", now)
	wrap(rtPkg+"Now", now)
	wrap("time.Since", since)
	wrap(rtPkg+"Since", since)
	wrap("time.Until", until)
}
