package main

// Constraint independence: a query only needs the path-condition conjuncts that share
// variables (transitively) with the term being decided. The rest of the path condition is
// already known satisfiable (by the cached model), so the merged assignment is a model of
// the whole path condition.

import "sort"

func (in *Interp) varsOf(t *Term) []int {
	if v, ok := in.varMemo[t.id]; ok {
		return v
	}
	var r []int
	switch t.op {
	case OpConst:
	case OpVar:
		r = []int{t.id}
	default:
		if len(t.args) == 1 {
			r = in.varsOf(t.args[0])
		} else {
			set := map[int]struct{}{}
			for _, a := range t.args {
				for _, v := range in.varsOf(a) {
					set[v] = struct{}{}
				}
			}
			r = make([]int, 0, len(set))
			for v := range set {
				r = append(r, v)
			}
			sort.Ints(r)
		}
	}
	in.varMemo[t.id] = r
	return r
}

// sliceFor returns the conjuncts of pc relevant to extra, and the set of variable ids involved.
func (in *Interp) sliceFor(extra []*Term) ([]*Term, map[int]bool) {
	// union-find over variable ids
	parent := map[int]int{}
	var find func(x int) int
	find = func(x int) int {
		p, ok := parent[x]
		if !ok {
			parent[x] = x
			return x
		}
		if p == x {
			return x
		}
		r := find(p)
		parent[x] = r
		return r
	}
	union := func(a, b int) {
		ra, rb := find(a), find(b)
		if ra != rb {
			parent[ra] = rb
		}
	}
	for _, c := range in.pc {
		vs := in.varsOf(c)
		for i := 1; i < len(vs); i++ {
			union(vs[0], vs[i])
		}
	}
	roots := map[int]bool{}
	for _, e := range extra {
		vs := in.varsOf(e)
		for i := 1; i < len(vs); i++ {
			union(vs[0], vs[i])
		}
	}
	for _, e := range extra {
		for _, v := range in.varsOf(e) {
			roots[find(v)] = true
		}
	}
	var out []*Term
	vars := map[int]bool{}
	for _, c := range in.pc {
		vs := in.varsOf(c)
		if len(vs) == 0 {
			if c.IsConst() && c.val == 0 {
				out = append(out, c)
			}
			continue
		}
		if roots[find(vs[0])] {
			out = append(out, c)
			for _, v := range vs {
				vars[v] = true
			}
		}
	}
	for _, e := range extra {
		for _, v := range in.varsOf(e) {
			vars[v] = true
		}
	}
	return out, vars
}
