package main

import (
	"fmt"
	"go/constant"
	"go/token"
	"go/types"
	"math"
	"unicode/utf8"

	"golang.org/x/tools/go/ssa"
)

func constBool(c *ssa.Const) bool     { return constant.BoolVal(c.Value) }
func constString(c *ssa.Const) string {
	if c.Value.Kind() == constant.String {
		return constant.StringVal(c.Value)
	}
	return string(rune(c.Int64()))
}

func (in *Interp) binop(op token.Token, t types.Type, x, y value, yt types.Type) value {
	tt := in.tt
	switch op {
	case token.EQL:
		return in.eqVal(t, x, y)
	case token.NEQ:
		return tt.Not(in.eqVal(t, x, y))
	}
	switch xv := x.(type) {
	case *Term:
		yv := y.(*Term)
		if xv.w == 0 {
			// booleans: only && || are lowered to control flow; &,|,^ can't apply
			switch op {
			case token.AND, token.LAND:
				return tt.And(xv, yv)
			case token.OR, token.LOR:
				return tt.Or(xv, yv)
			}
			panic(fmt.Sprintf("bool binop %v", op))
		}
		_, signed, _ := isIntType(t)
		switch op {
		case token.ADD:
			return tt.Add(xv, yv)
		case token.SUB:
			return tt.Sub(xv, yv)
		case token.MUL:
			return tt.Mul(xv, yv)
		case token.QUO, token.REM:
			if !in.branch(tt.Not(tt.Eq(yv, tt.Const(yv.w, 0))), "div0") {
				panic(runtimePanic{"integer divide by zero"})
			}
			if op == token.QUO {
				if signed {
					return tt.SDiv(xv, yv)
				}
				return tt.UDiv(xv, yv)
			}
			if signed {
				return tt.SRem(xv, yv)
			}
			return tt.URem(xv, yv)
		case token.AND:
			return tt.BAnd(xv, yv)
		case token.OR:
			return tt.BOr(xv, yv)
		case token.XOR:
			return tt.BXor(xv, yv)
		case token.AND_NOT:
			return tt.BAnd(xv, tt.BNot(yv))
		case token.SHL, token.SHR:
			_, ysigned, _ := isIntType(yt)
			if ysigned {
				if !in.branch(tt.SLe(tt.Const(yv.w, 0), yv), "shift>=0") {
					panic(runtimePanic{"negative shift amount"})
				}
			}
			// bring the count to x's width; counts >= width saturate
			var cnt *Term
			var big *Term = tt.False
			if yv.w > xv.w {
				big = tt.Not(tt.ULt(yv, tt.Const(yv.w, uint64(xv.w))))
				cnt = tt.Extract(yv, xv.w-1, 0)
			} else {
				cnt = tt.ZExt(yv, xv.w)
			}
			var r, over *Term
			if op == token.SHL {
				r, over = tt.Shl(xv, cnt), tt.Const(xv.w, 0)
			} else if signed {
				r, over = tt.AShr(xv, cnt), tt.AShr(xv, tt.Const(xv.w, uint64(xv.w-1)))
			} else {
				r, over = tt.LShr(xv, cnt), tt.Const(xv.w, 0)
			}
			return tt.Ite(big, over, r)
		case token.LSS:
			if signed {
				return tt.SLt(xv, yv)
			}
			return tt.ULt(xv, yv)
		case token.LEQ:
			if signed {
				return tt.SLe(xv, yv)
			}
			return tt.ULe(xv, yv)
		case token.GTR:
			if signed {
				return tt.SLt(yv, xv)
			}
			return tt.ULt(yv, xv)
		case token.GEQ:
			if signed {
				return tt.SLe(yv, xv)
			}
			return tt.ULe(yv, xv)
		}
	case float64:
		yv := y.(float64)
		f32 := false
		if b, ok := t.Underlying().(*types.Basic); ok && b.Kind() == types.Float32 {
			f32 = true
		}
		rnd := func(f float64) value {
			if f32 {
				return float64(float32(f))
			}
			return f
		}
		switch op {
		case token.ADD:
			return rnd(xv + yv)
		case token.SUB:
			return rnd(xv - yv)
		case token.MUL:
			return rnd(xv * yv)
		case token.QUO:
			return rnd(xv / yv)
		case token.LSS:
			return tt.Bool(xv < yv)
		case token.LEQ:
			return tt.Bool(xv <= yv)
		case token.GTR:
			return tt.Bool(xv > yv)
		case token.GEQ:
			return tt.Bool(xv >= yv)
		}
	case strV:
		yv := y.(strV)
		switch op {
		case token.ADD:
			b := make([]*Term, 0, len(xv.b)+len(yv.b))
			b = append(b, xv.b...)
			b = append(b, yv.b...)
			return strV{b}
		case token.LSS, token.LEQ, token.GTR, token.GEQ:
			lt := in.strLess(xv, yv)
			eq := in.eqVal(t, xv, yv)
			switch op {
			case token.LSS:
				return lt
			case token.LEQ:
				return tt.Or(lt, eq)
			case token.GTR:
				return tt.Not(tt.Or(lt, eq))
			case token.GEQ:
				return tt.Not(lt)
			}
		}
	}
	panic(fmt.Sprintf("binop: unsupported %T %v %T", x, op, y))
}

// strLess: lexicographic x < y over bytes.
func (in *Interp) strLess(x, y strV) *Term {
	tt := in.tt
	n := len(x.b)
	if len(y.b) < n {
		n = len(y.b)
	}
	// from the end: lt_i = x[i]<y[i] or (x[i]==y[i] and lt_{i+1}); base: len(x)<len(y)
	r := tt.Bool(len(x.b) < len(y.b))
	for i := n - 1; i >= 0; i-- {
		r = tt.Or(tt.ULt(x.b[i], y.b[i]), tt.And(tt.Eq(x.b[i], y.b[i]), r))
	}
	return r
}

func (in *Interp) unop(fr *frame, instr *ssa.UnOp, x value) value {
	tt := in.tt
	switch instr.Op {
	case token.ARROW:
		return in.chanRecv(fr, x.(*chanV), instr.CommaOk, instr.Pos())
	case token.MUL:
		return in.loadPtr(deref(instr.X.Type()), x)
	case token.SUB:
		switch x := x.(type) {
		case *Term:
			return tt.Neg(x)
		case float64:
			return -x
		}
	case token.NOT:
		return tt.Not(x.(*Term))
	case token.XOR:
		return tt.BNot(x.(*Term))
	}
	panic(fmt.Sprintf("unop %v on %T", instr.Op, x))
}

func (in *Interp) conv(fr *frame, instr *ssa.Convert, tdst, tsrc types.Type, x value) value {
	tt := in.tt
	ud, us := tdst.Underlying(), tsrc.Underlying()
	// unsafe.Pointer round trips
	if b, ok := ud.(*types.Basic); ok && b.Kind() == types.UnsafePointer {
		switch x := x.(type) {
		case *value:
			up := unsafeP{cell: x}
			if ia, ok := instr.X.(*ssa.IndexAddr); ok {
				if base, ok := fr.get(ia.X).([]value); ok {
					if idx, ok := fr.get(ia.Index).(*Term); ok && idx.IsConst() {
						up.base = base
						up.off = int(idx.val)
					}
				}
			}
			return up
		case unsafeP:
			return x
		}
		in.unsupported("conversion of %T to unsafe.Pointer", x)
	}
	if b, ok := us.(*types.Basic); ok && b.Kind() == types.UnsafePointer {
		up := x.(unsafeP)
		if pt, ok := ud.(*types.Pointer); ok {
			if at, ok := pt.Elem().Underlying().(*types.Array); ok && up.base != nil {
				n := int(at.Len())
				if up.off+n > len(up.base) {
					in.unsupported("unsafe array view beyond slice length")
				}
				var cell value = array(up.base[up.off : up.off+n : up.off+n])
				return &cell
			}
			if up.cell == nil {
				return (*value)(nil)
			}
			return up.cell
		}
		if _, _, ok := isIntType(tdst); ok { // uintptr(unsafe.Pointer)
			in.unsupported("unsafe.Pointer to integer")
		}
	}
	switch x := x.(type) {
	case *Term:
		if x.w == 0 {
			return x
		}
		_, ssigned, _ := isIntType(tsrc)
		if w, _, ok := isIntType(tdst); ok {
			if w <= x.w {
				return tt.Extract(x, w-1, 0)
			}
			if ssigned {
				return tt.SExt(x, w)
			}
			return tt.ZExt(x, w)
		}
		if isFloatType(tdst) {
			if !x.IsConst() {
				in.unsupported("symbolic integer converted to float at %s", in.where(fr, instr.Pos()))
			}
			var f float64
			if ssigned {
				f = float64(x.sval())
			} else {
				f = float64(x.val)
			}
			if ud.(*types.Basic).Kind() == types.Float32 {
				f = float64(float32(f))
			}
			return f
		}
		if isStringType(tdst) { // string(rune)
			if !x.IsConst() {
				in.unsupported("symbolic rune to string")
			}
			return in.mkStr(string(rune(x.sval())))
		}
	case float64:
		if isFloatType(tdst) {
			if ud.(*types.Basic).Kind() == types.Float32 {
				return float64(float32(x))
			}
			return x
		}
		if w, signed, ok := isIntType(tdst); ok {
			if math.IsNaN(x) || math.IsInf(x, 0) {
				return tt.Const(w, 1<<63)
			}
			if signed {
				return tt.Const(w, uint64(int64(x)))
			}
			return tt.Const(w, uint64(x))
		}
	case strV:
		if isStringType(tdst) {
			return x
		}
		if st, ok := ud.(*types.Slice); ok {
			if eb, ok := st.Elem().Underlying().(*types.Basic); ok {
				switch eb.Kind() {
				case types.Uint8:
					r := make([]value, len(x.b))
					for i, b := range x.b {
						r[i] = b
					}
					return r
				case types.Int32:
					s, ok := concStr(x)
					if !ok {
						in.unsupported("symbolic string to []rune")
					}
					var r []value
					for _, c := range s {
						r = append(r, tt.Const(32, uint64(c)))
					}
					if r == nil {
						r = []value{}
					}
					return r
				}
			}
		}
	case []value:
		if isStringType(tdst) {
			st := us.(*types.Slice)
			eb := st.Elem().Underlying().(*types.Basic)
			if eb.Kind() == types.Uint8 {
				b := make([]*Term, len(x))
				for i, e := range x {
					b[i] = e.(*Term)
				}
				return strV{b}
			}
			// []rune -> string
			var rs []rune
			for _, e := range x {
				t := e.(*Term)
				if !t.IsConst() {
					in.unsupported("symbolic []rune to string")
				}
				rs = append(rs, rune(t.sval()))
			}
			return in.mkStr(string(rs))
		}
		return x
	case *value:
		return x
	case unsafeP:
		return x
	}
	panic(fmt.Sprintf("conv: unsupported %v -> %v (%T)", tsrc, tdst, x))
}

// ---------------------------------------------------------------- maps

// keyEq returns a Bool term for key equality.
func (in *Interp) keyEq(m *mapV, a, b value) *Term {
	return in.eqVal(m.kt, a, b)
}

// mapFind returns the matching entry (forking on symbolic key equality) or nil.
func (in *Interp) mapFind(m *mapV, k value) *mapEntry {
	if m == nil {
		return nil
	}
	for _, e := range m.entries {
		if !e.alive {
			continue
		}
		eq := in.keyEq(m, e.k, k)
		if in.branch(eq, "mapkey") {
			return e
		}
	}
	return nil
}

func (in *Interp) mapInsert(m *mapV, k, v value) {
	if e := in.mapFind(m, k); e != nil {
		e.v = copyVal(v)
		return
	}
	m.entries = append(m.entries, &mapEntry{k: copyVal(k), v: copyVal(v), alive: true})
}

func (in *Interp) mapDelete(m *mapV, k value) {
	if e := in.mapFind(m, k); e != nil {
		e.alive = false
		// compact
		n := m.entries[:0:0]
		for _, x := range m.entries {
			if x.alive {
				n = append(n, x)
			}
		}
		m.entries = n
	}
}

func (m *mapV) length() int {
	if m == nil {
		return 0
	}
	n := 0
	for _, e := range m.entries {
		if e.alive {
			n++
		}
	}
	return n
}

func (in *Interp) lookup(instr *ssa.Lookup, x, idx value) value {
	switch x := x.(type) {
	case *mapV:
		var v value
		ok := false
		if x != nil {
			in.raceRead(&x.rc)
		}
		if e := in.mapFind(x, idx); e != nil {
			v, ok = copyVal(e.v), true
		} else {
			v = in.zero(instr.X.Type().Underlying().(*types.Map).Elem())
		}
		if instr.CommaOk {
			return tuple{v, in.tt.Bool(ok)}
		}
		return v
	case strV:
		i := in.idxTerm(idx, instr.Index.Type())
		in.boundsCheck(i, len(x.b), "string index")
		if i.IsConst() {
			return x.b[i.val]
		}
		r := x.b[len(x.b)-1]
		for j := len(x.b) - 2; j >= 0; j-- {
			r = in.tt.Ite(in.tt.Eq(i, in.tt.Const(64, uint64(j))), x.b[j], r)
		}
		return r
	}
	panic(fmt.Sprintf("lookup on %T", x))
}

// ---------------------------------------------------------------- range

type iter interface {
	next(in *Interp) tuple
}

type mapIter struct {
	m    *mapV
	snap []*mapEntry
	i    int
}

func (it *mapIter) next(in *Interp) tuple {
	for it.i < len(it.snap) {
		e := it.snap[it.i]
		it.i++
		if e.alive {
			return tuple{in.tt.True, copyVal(e.k), copyVal(e.v)}
		}
	}
	return tuple{in.tt.False, nil, nil}
}

type strIter struct {
	s strV
	i int
}

func (it *strIter) next(in *Interp) tuple {
	if it.i >= len(it.s.b) {
		return tuple{in.tt.False, in.tt.Const(64, 0), in.tt.Const(32, 0)}
	}
	// decode one rune; require concrete bytes for multi-byte sequences
	b0 := it.s.b[it.i]
	if b0.IsConst() && b0.val < 0x80 {
		r := tuple{in.tt.True, in.tt.Const(64, uint64(it.i)), in.tt.Const(32, b0.val)}
		it.i++
		return r
	}
	if !b0.IsConst() {
		// symbolic byte: ASCII fast path, otherwise run the real UTF-8 decoder on the rest
		if in.branch(in.tt.ULt(b0, in.tt.Const(8, 0x80)), "rune-ascii") {
			r := tuple{in.tt.True, in.tt.Const(64, uint64(it.i)), in.tt.ZExt(b0, 32)}
			it.i++
			return r
		}
	}
	if _, allConc := concStr(strV{it.s.b[it.i:min(it.i+4, len(it.s.b))]}); !allConc {
		up := in.prog.ImportedPackage("unicode/utf8")
		if up == nil || up.Func("DecodeRuneInString") == nil {
			in.unsupported("range over string with symbolic non-ASCII byte (utf8 package not loaded)")
		}
		res := in.callSSA(nil, 0, up.Func("DecodeRuneInString"), []value{strV{it.s.b[it.i:]}}, nil).(tuple)
		sz := in.concretize(res[1].(*Term), "rune-size", 8)
		r := tuple{in.tt.True, in.tt.Const(64, uint64(it.i)), res[0]}
		it.i += int(sz)
		return r
	}
	rest, ok := concStr(strV{it.s.b[it.i:]})
	if !ok {
		// take the concrete prefix
		n := 0
		for n < len(it.s.b)-it.i && it.s.b[it.i+n].IsConst() && n < 4 {
			n++
		}
		rest, _ = concStr(strV{it.s.b[it.i : it.i+n]})
	}
	rn, sz := utf8.DecodeRuneInString(rest)
	r := tuple{in.tt.True, in.tt.Const(64, uint64(it.i)), in.tt.Const(32, uint64(rn))}
	it.i += sz
	return r
}

func (in *Interp) rangeIter(x value, t types.Type) iter {
	switch x := x.(type) {
	case *mapV:
		if x == nil {
			return &mapIter{}
		}
		in.raceRead(&x.rc)
		snap := make([]*mapEntry, len(x.entries))
		copy(snap, x.entries)
		return &mapIter{m: x, snap: snap}
	case strV:
		return &strIter{s: x}
	}
	panic(fmt.Sprintf("cannot range over %T", x))
}

// ---------------------------------------------------------------- builtins

func (in *Interp) callBuiltin(caller *frame, callpos token.Pos, fn *ssa.Builtin, args []value) value {
	tt := in.tt
	switch fn.Name() {
	case "append":
		if len(args) == 1 {
			return args[0]
		}
		if s, ok := args[1].(strV); ok {
			// append([]byte, string...)
			a := args[0].([]value)
			for _, b := range s.b {
				a = append(a, b)
			}
			return a
		}
		a := args[0].([]value)
		b := args[1].([]value)
		if len(b) == 0 {
			return a
		}
		// copy semantic: appended elements are value copies
		for _, e := range b {
			a = append(a, copyVal(e))
		}
		return a
	case "copy":
		dst := args[0].([]value)
		n := 0
		switch src := args[1].(type) {
		case []value:
			n = len(dst)
			if len(src) < n {
				n = len(src)
			}
			tmp := make([]value, n)
			for i := 0; i < n; i++ {
				tmp[i] = copyVal(src[i])
			}
			copy(dst, tmp)
		case strV:
			n = len(dst)
			if len(src.b) < n {
				n = len(src.b)
			}
			for i := 0; i < n; i++ {
				dst[i] = src.b[i]
			}
		}
		return tt.Const(64, uint64(n))
	case "close":
		in.chanClose(caller, args[0].(*chanV), callpos)
		return nil
	case "delete":
		m := args[0].(*mapV)
		if m != nil {
			in.raceWrite(&m.rc)
			in.mapDelete(m, args[1])
		}
		return nil
	case "print", "println":
		return nil
	case "len":
		switch x := args[0].(type) {
		case strV:
			return tt.Const(64, uint64(len(x.b)))
		case array:
			return tt.Const(64, uint64(len(x)))
		case *value:
			return tt.Const(64, uint64(len((*x).(array))))
		case []value:
			return tt.Const(64, uint64(len(x)))
		case *mapV:
			return tt.Const(64, uint64(x.length()))
		case *chanV:
			if x == nil {
				return tt.Const(64, 0)
			}
			return tt.Const(64, uint64(len(x.buf)))
		}
		panic(fmt.Sprintf("len of %T", args[0]))
	case "cap":
		switch x := args[0].(type) {
		case array:
			return tt.Const(64, uint64(len(x)))
		case *value:
			return tt.Const(64, uint64(len((*x).(array))))
		case []value:
			return tt.Const(64, uint64(cap(x)))
		case *chanV:
			if x == nil {
				return tt.Const(64, 0)
			}
			return tt.Const(64, uint64(x.cap))
		}
		panic(fmt.Sprintf("cap of %T", args[0]))
	case "min", "max":
		r := args[0]
		for _, a := range args[1:] {
			switch x := r.(type) {
			case *Term:
				y := a.(*Term)
				_, signed, _ := isIntType(fn.Type().(*types.Signature).Params().At(0).Type())
				var lt *Term
				if signed {
					lt = tt.SLt(y, x)
				} else {
					lt = tt.ULt(y, x)
				}
				if fn.Name() == "max" {
					lt = tt.Not(tt.Or(lt, tt.Eq(x, y)))
					r = tt.Ite(lt, x, y)
					if signed {
						r = tt.Ite(tt.SLt(x, y), y, x)
					} else {
						r = tt.Ite(tt.ULt(x, y), y, x)
					}
				} else {
					r = tt.Ite(lt, y, x)
				}
			case float64:
				y := a.(float64)
				if fn.Name() == "min" {
					r = math.Min(x, y)
				} else {
					r = math.Max(x, y)
				}
			default:
				in.unsupported("min/max on %T", r)
			}
		}
		return r
	case "panic":
		panic(targetPanic{args[0]})
	case "recover":
		return in.doRecover(caller)
	case "ssa:wrapnilchk":
		recv := args[0]
		if p, ok := recv.(*value); ok && p == nil {
			panic(runtimePanic{"value method called using nil pointer"})
		}
		return recv
	case "clear":
		switch x := args[0].(type) {
		case *mapV:
			if x != nil {
				x.entries = nil
			}
		case []value:
			in.unsupported("clear of slice")
		}
		return nil
	}
	panic("unknown built-in: " + fn.Name())
}
