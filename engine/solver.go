package main

// Live SMT solver process (z3 -in / cvc5 --incremental) fed with SMT-LIB2.
// Composite terms are emitted once, at the base level, as define-fun macros; each
// query is (push)(assert...)(check-sat)[(get-value ...)](pop).

import (
	"bufio"
	"fmt"
	"io"
	"os/exec"
	"strconv"
	"strings"
	"time"
)

type SolverKind int

const (
	KindZ3 SolverKind = iota
	KindZ3New
	KindCVC5
)

func (k SolverKind) String() string {
	switch k {
	case KindZ3:
		return "z3"
	case KindZ3New:
		return "z3-new"
	}
	return "cvc5"
}

type Solver struct {
	kind     SolverKind
	tt       *TermTable
	cmd      *exec.Cmd
	in       *bufio.Writer
	inRaw    io.WriteCloser
	out      *bufio.Reader
	defined  map[int]bool
	declared map[string]bool
	// statistics
	nSat, nUnsat, nUnknown, nErr int
	wall                         time.Duration
	timeoutMs                    int
	log                          io.Writer
	dead                         bool
}

func NewSolver(kind SolverKind, tt *TermTable, timeoutMs int) (*Solver, error) {
	var cmd *exec.Cmd
	switch kind {
	case KindZ3:
		cmd = exec.Command("/usr/bin/z3", "-in", fmt.Sprintf("-t:%d", timeoutMs))
	case KindZ3New:
		cmd = exec.Command("z3-new", "-in", fmt.Sprintf("-t:%d", timeoutMs))
	case KindCVC5:
		cmd = exec.Command("cvc5", "--incremental", "--produce-models", fmt.Sprintf("--tlimit-per=%d", timeoutMs), "--lang=smt2")
	}
	stdin, err := cmd.StdinPipe()
	if err != nil {
		return nil, err
	}
	stdout, err := cmd.StdoutPipe()
	if err != nil {
		return nil, err
	}
	cmd.Stderr = cmd.Stdout
	if err := cmd.Start(); err != nil {
		return nil, err
	}
	s := &Solver{kind: kind, tt: tt, cmd: cmd, in: bufio.NewWriterSize(stdin, 1<<16), inRaw: stdin,
		out: bufio.NewReaderSize(stdout, 1<<16), defined: map[int]bool{}, declared: map[string]bool{}, timeoutMs: timeoutMs}
	if kind == KindCVC5 {
		fmt.Fprintln(s.in, "(set-logic ALL)")
	}
	fmt.Fprintln(s.in, "(set-option :produce-models true)")
	return s, nil
}

func (s *Solver) Close() {
	if s == nil || s.dead {
		return
	}
	s.dead = true
	s.inRaw.Close()
	done := make(chan struct{})
	go func() { s.cmd.Wait(); close(done) }()
	select {
	case <-done:
	case <-time.After(2 * time.Second):
		s.cmd.Process.Kill()
	}
}

func (s *Solver) emit(line string) {
	if s.log != nil {
		fmt.Fprintln(s.log, line)
	}
	s.in.WriteString(line)
	s.in.WriteByte('\n')
}

// define makes sure t (and everything below it) is known to the solver.
func (s *Solver) define(t *Term) {
	if t.op == OpConst {
		return
	}
	if s.defined[t.id] {
		return
	}
	// iterative post-order to avoid deep recursion
	type fr struct {
		t *Term
		i int
	}
	stack := []fr{{t, 0}}
	for len(stack) > 0 {
		top := &stack[len(stack)-1]
		if top.t.op == OpConst || s.defined[top.t.id] {
			stack = stack[:len(stack)-1]
			continue
		}
		if top.i < len(top.t.args) {
			a := top.t.args[top.i]
			top.i++
			if a.op != OpConst && !s.defined[a.id] {
				stack = append(stack, fr{a, 0})
			}
			continue
		}
		x := top.t
		stack = stack[:len(stack)-1]
		s.defined[x.id] = true
		switch x.op {
		case OpVar:
			if !s.declared[x.name] {
				s.declared[x.name] = true
				s.emit(fmt.Sprintf("(declare-const |%s| %s)", x.name, sortStr(x.w)))
			}
		case OpUF:
			if !s.declared["uf:"+x.name] {
				s.declared["uf:"+x.name] = true
				var sb strings.Builder
				for _, a := range x.args {
					sb.WriteString(sortStr(a.w) + " ")
				}
				s.emit(fmt.Sprintf("(declare-fun |%s| (%s) %s)", x.name, sb.String(), sortStr(x.w)))
			}
			s.emit(fmt.Sprintf("(define-fun t%d () %s %s)", x.id, sortStr(x.w), x.def()))
		default:
			s.emit(fmt.Sprintf("(define-fun t%d () %s %s)", x.id, sortStr(x.w), x.def()))
		}
	}
}

func (s *Solver) readLine() (string, error) {
	l, err := s.out.ReadString('\n')
	return strings.TrimSpace(l), err
}

// readSexp reads one balanced s-expression (possibly multi-line).
func (s *Solver) readSexp() (string, error) {
	var sb strings.Builder
	depth := 0
	started := false
	for {
		l, err := s.out.ReadString('\n')
		if err != nil {
			return sb.String(), err
		}
		inBar := false
		for _, c := range l {
			if c == '|' {
				inBar = !inBar
			}
			if inBar {
				continue
			}
			if c == '(' {
				depth++
				started = true
			} else if c == ')' {
				depth--
			}
		}
		sb.WriteString(l)
		if started && depth <= 0 {
			return sb.String(), nil
		}
		if !started && strings.TrimSpace(l) != "" {
			return sb.String(), nil
		}
	}
}

type Result int

const (
	Sat Result = iota
	Unsat
	Unknown
	SolverError
)

func (r Result) String() string {
	return [...]string{"sat", "unsat", "unknown", "error"}[r]
}

// Check decides the conjunction of the assertions. If want is non-empty and the
// result is sat, the values of those terms are returned (by term id).
func (s *Solver) Check(assertions []*Term, want []*Term) (Result, map[int]uint64, string) {
	if s.dead {
		return SolverError, nil, "solver dead"
	}
	t0 := time.Now()
	defer func() { s.wall += time.Since(t0) }()
	// one-shot per query inside the live process: (reset) makes z3 use its full
	// (non-incremental) bit-vector pipeline, which is orders of magnitude faster on
	// multiplication chains than the incremental core used under push/pop.
	s.emit("(reset)")
	if s.kind == KindCVC5 {
		s.emit("(set-logic ALL)")
	}
	s.emit("(set-option :produce-models true)")
	s.defined = map[int]bool{}
	s.declared = map[string]bool{}
	for _, a := range assertions {
		s.define(a)
	}
	for _, a := range want {
		s.define(a)
	}
	for _, a := range assertions {
		if a.op == OpConst {
			if a.val == 0 {
				s.emit("(assert false)")
			}
			continue
		}
		s.emit("(assert " + a.ref() + ")")
	}
	s.emit("(check-sat)")
	s.in.Flush()
	var res Result
	msg := ""
	for {
		l, err := s.readLine()
		if err != nil {
			s.dead = true
			s.nErr++
			return SolverError, nil, "solver died: " + err.Error() + " " + msg
		}
		if l == "" {
			continue
		}
		if l == "sat" {
			res = Sat
			break
		}
		if l == "unsat" {
			res = Unsat
			break
		}
		if l == "unknown" || l == "timeout" {
			res = Unknown
			break
		}
		// anything else (errors, warnings)
		msg += l + "; "
		if strings.HasPrefix(l, "(error") {
			// z3 continues after an error; the verdict that follows cannot be trusted
			// keep reading to the verdict then report error
			for {
				l2, err := s.readLine()
				if err != nil {
					s.dead = true
					break
				}
				if l2 == "sat" || l2 == "unsat" || l2 == "unknown" || l2 == "timeout" {
					break
				}
				msg += l2 + "; "
			}
			s.nErr++
			return SolverError, nil, msg
		}
	}
	var vals map[int]uint64
	if res == Sat && len(want) > 0 {
		vals = map[int]uint64{}
		const chunk = 200
		for i := 0; i < len(want); i += chunk {
			j := i + chunk
			if j > len(want) {
				j = len(want)
			}
			var sb strings.Builder
			sb.WriteString("(get-value (")
			n := 0
			idx := []int{}
			for k := i; k < j; k++ {
				if want[k].op == OpConst {
					vals[want[k].id] = want[k].val
					continue
				}
				sb.WriteString(want[k].ref() + " ")
				idx = append(idx, k)
				n++
			}
			sb.WriteString("))")
			if n == 0 {
				continue
			}
			s.emit(sb.String())
			s.in.Flush()
			sx, err := s.readSexp()
			if err != nil || strings.Contains(sx, "(error") {
				s.nErr++
				return SolverError, nil, "get-value: " + sx
			}
			got := parseValues(sx)
			if len(got) != n {
				s.nErr++
				return SolverError, nil, fmt.Sprintf("get-value: parsed %d of %d: %s", len(got), n, sx)
			}
			for q, k := range idx {
				vals[want[k].id] = got[q]
			}
		}
	}
	switch res {
	case Sat:
		s.nSat++
	case Unsat:
		s.nUnsat++
	default:
		s.nUnknown++
	}
	return res, vals, msg
}

// parseValues extracts the value literals of a get-value answer, in order.
// Format: ((name val) (name val) ...) with val in {#x.., #b.., true, false, (_ bvN w)}.
func parseValues(sx string) []uint64 {
	var out []uint64
	toks := tokenize(sx)
	// walk: expect ( ( name val ) ( name val ) ... )
	i := 0
	if i < len(toks) && toks[i] == "(" {
		i++
	}
	for i < len(toks) {
		if toks[i] != "(" {
			break
		}
		i++
		// name: either a token or a parenthesised expr
		if toks[i] == "(" {
			d := 1
			i++
			for d > 0 {
				if toks[i] == "(" {
					d++
				} else if toks[i] == ")" {
					d--
				}
				i++
			}
		} else {
			i++
		}
		// value
		if toks[i] == "(" {
			// (_ bvN w)
			if toks[i+1] == "_" && strings.HasPrefix(toks[i+2], "bv") {
				v, _ := strconv.ParseUint(toks[i+2][2:], 10, 64)
				out = append(out, v)
			} else {
				out = append(out, 0)
			}
			for toks[i] != ")" {
				i++
			}
			i++
		} else {
			out = append(out, parseLit(toks[i]))
			i++
		}
		if i < len(toks) && toks[i] == ")" {
			i++
		}
	}
	return out
}

func parseLit(t string) uint64 {
	switch {
	case t == "true":
		return 1
	case t == "false":
		return 0
	case strings.HasPrefix(t, "#x"):
		h := t[2:]
		if len(h) > 16 {
			h = h[len(h)-16:]
		}
		v, _ := strconv.ParseUint(h, 16, 64)
		return v
	case strings.HasPrefix(t, "#b"):
		b := t[2:]
		if len(b) > 64 {
			b = b[len(b)-64:]
		}
		v, _ := strconv.ParseUint(b, 2, 64)
		return v
	}
	v, _ := strconv.ParseUint(t, 10, 64)
	return v
}

func tokenize(s string) []string {
	var toks []string
	i := 0
	for i < len(s) {
		c := s[i]
		switch {
		case c == '(' || c == ')':
			toks = append(toks, string(c))
			i++
		case c == ' ' || c == '\n' || c == '\t' || c == '\r':
			i++
		case c == '|':
			j := i + 1
			for j < len(s) && s[j] != '|' {
				j++
			}
			toks = append(toks, s[i:j+1])
			i = j + 1
		default:
			j := i
			for j < len(s) && s[j] != '(' && s[j] != ')' && s[j] != ' ' && s[j] != '\n' && s[j] != '\t' && s[j] != '\r' {
				j++
			}
			toks = append(toks, s[i:j])
			i = j
		}
	}
	return toks
}
