package main

// Intrinsics added for C17 (nsqadmin admin identity).

import (
	"go/token"
	"go/types"
)

func init() {
	// (*encoding/json.Decoder).Decode(v): the handlers decode the request body with
	// json.NewDecoder(req.Body).Decode(&body). Contract: read the underlying reader to its end
	// (calling its real Read method through the interpreter) and decode the bytes with the
	// json.Unmarshal contract model (engine/json.go). For a body that is one json.Marshal blob
	// this is exactly Unmarshal; for arbitrary bytes Unmarshal's "error or any value of the
	// destination type" covers every outcome Decode can have (Decode accepts trailing bytes
	// after the first value where Unmarshal refuses them: also within "any value"); an empty
	// stream is an error (io.EOF in the real decoder).
	intrinsics["(*encoding/json.Decoder).Decode"] = func(in *Interp, fr *frame, args []value) value {
		dp, ok := args[0].(*value)
		if !ok || dp == nil {
			panic(runtimePanic{"invalid memory address or nil pointer dereference (nil *json.Decoder)"})
		}
		dec := (*dp).(structure)
		// bytes buffered by an earlier Decode are not modelled: one Decode per Decoder
		rd, ok := dec[0].(iface)
		if !ok || rd.t == nil {
			panic(runtimePanic{"invalid memory address or nil pointer dereference (json.Decoder without reader)"})
		}
		read := in.prog.LookupMethod(rd.t, nil, "Read")
		if read == nil {
			in.unsupported("json.Decoder: reader %v has no Read method", rd.t)
		}
		var data []value
		for rounds := 0; ; rounds++ {
			if rounds > 64 {
				in.unsupported("json.Decoder: reader did not reach EOF within 64 reads")
			}
			buf := make([]value, 16)
			for i := range buf {
				buf[i] = in.tt.bytes[0]
			}
			r := in.call(fr, token.NoPos, read, []value{rd.v, buf}).(tuple)
			nT := r[0].(*Term)
			if !nT.IsConst() {
				in.unsupported("json.Decoder: reader returned a symbolic byte count")
			}
			n := int(nT.sval())
			if n < 0 || n > len(buf) {
				in.unsupported("json.Decoder: reader returned a byte count out of range")
			}
			data = append(data, buf[:n]...)
			if e, isI := r[1].(iface); isI && e.t != nil {
				break // io.EOF or an I/O error: either way the document ends here
			}
			if n == 0 {
				// (0, nil): the real decoder keeps reading; so do we, bounded by rounds
				continue
			}
		}
		if len(data) == 0 {
			return in.newError(in.mkStr("EOF"))
		}
		if data == nil {
			data = []value{}
		}
		return intrinsics["encoding/json.Unmarshal"](in, fr, []value{data, args[1]})
	}
	_ = types.Typ
}
