package main

// C20 (to_nsq record splitting): opt-in use of path facts in IndexByte.
//
// The stock IndexByte model returns ite(b[0]==c, 0, ite(b[1]==c, 1, ... -1)); every later use of
// that index (a branch, a slice bound) costs solver queries even when the harness has already
// case-split on exactly these comparisons. After verifrt.UsePathFacts() a comparison b[i]==c
// that is literally a conjunct of the current path condition (or whose negation is) is replaced
// by that truth value before the ite chain is built. Sound: path-condition conjuncts hold on
// the path by construction; anything not found there is left symbolic, as before. Harnesses
// that do not call UsePathFacts are unaffected.

func init() {
	const flag = "c20.pathfacts"
	intrinsics[rtPkg+"UsePathFacts"] = func(in *Interp, fr *frame, args []value) value {
		in.ghost[flag] = true
		return nil
	}
	bytesOf := func(v value) ([]*Term, bool) {
		switch v := v.(type) {
		case []value:
			b := make([]*Term, len(v))
			for i, e := range v {
				t, ok := e.(*Term)
				if !ok {
					return nil, false
				}
				b[i] = t
			}
			return b, true
		case strV:
			return v.b, true
		}
		return nil, false
	}
	for _, name := range []string{"internal/bytealg.IndexByte", "internal/bytealg.IndexByteString", "bytes.IndexByte", "strings.IndexByte"} {
		orig := intrinsics[name]
		if orig == nil {
			continue
		}
		intrinsics[name] = func(in *Interp, fr *frame, args []value) value {
			if on, _ := in.ghost[flag].(bool); !on {
				return orig(in, fr, args)
			}
			b, ok := bytesOf(args[0])
			c, ok2 := args[1].(*Term)
			if !ok || !ok2 {
				return orig(in, fr, args)
			}
			facts := make(map[*Term]bool, len(in.pc))
			for _, t := range in.pc {
				facts[t] = true
			}
			r := in.tt.Const(64, ^uint64(0))
			for i := len(b) - 1; i >= 0; i-- {
				eq := in.tt.Eq(b[i], c)
				if !eq.IsConst() {
					if facts[eq] {
						eq = in.tt.True
					} else if facts[in.tt.Not(eq)] {
						eq = in.tt.False
					}
				}
				r = in.tt.Ite(eq, in.tt.Const(64, uint64(i)), r)
			}
			return r
		}
	}
}
