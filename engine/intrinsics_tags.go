package main

import "go/types"

// verifrt.StructTag(v, field): the struct tag of a field of v's (pointed-to) struct type, read
// from the type information of the CURRENT source (the native twin uses reflect). Lets a harness
// check the binding of option fields to their documented flag / config-file names, which the
// reflection-based option resolver itself cannot be executed symbolically.
func init() {
	intrinsics[rtPkg+"StructTag"] = func(in *Interp, fr *frame, args []value) value {
		it, ok := args[0].(iface)
		if !ok || it.t == nil {
			return in.mkStr("")
		}
		name := in.argStr(args[1])
		t := it.t
		if p, ok := t.Underlying().(*types.Pointer); ok {
			t = p.Elem()
		}
		st, ok := t.Underlying().(*types.Struct)
		if !ok {
			return in.mkStr("")
		}
		for i := 0; i < st.NumFields(); i++ {
			if st.Field(i).Name() == name {
				return in.mkStr(st.Tag(i))
			}
		}
		return in.mkStr("")
	}
}
