package main

// Controlled scheduler: interpreted goroutines run one at a time (baton passing);
// context switches happen only at synchronisation operations and are decisions of the
// DFS (bounded number of preemptions). Channels, select, mutexes, once, waitgroup.

import (
	"fmt"
	"go/token"
	"go/types"

	"golang.org/x/tools/go/ssa"
)

// schedStep: when thread From reaches sync point Pos for the N-th time since it was last
// switched in, the baton goes to thread To (native replay imposes exactly these switches).
type schedStep struct {
	From string `json:"from"`
	Pos  string `json:"pos"`
	N    int    `json:"n"`
	To   string `json:"to"`
	Op   string `json:"op"`
	// Arr (only for "/wait" steps): the thread's arrival number at Pos (since it was last switched
	// in) at which the operation blocked - earlier arrivals found the operation ready
	Arr int `json:"arr,omitempty"`
}

type mailbox struct {
	full bool
	ch   *chanV
	v    value
	ok   bool
}

type thread struct {
	id      int
	name    string
	wake    chan bool
	done    bool
	blocked func() bool
	desc    string
	joiner  bool
	daemon  bool
	// channel wait registrations
	waitRecv []*chanV
	mbox     mailbox
	sends    []*sendReq
	started  bool
	isMain   bool
	visits   map[string]int
	vc       vclock
}

type pathResult struct {
	panicVal interface{}
	thread   *thread
}

type mutexState struct {
	locked  bool
	readers int
	owner   int
	// writersWaiting: goroutines blocked in Lock. Like sync.RWMutex, a pending writer blocks NEW
	// readers (so a recursive RLock with a writer arriving in between deadlocks, as in Go)
	writersWaiting int
}
type onceSt struct {
	done    bool
	running bool
}
type wgSt struct{ n int64 }

func (in *Interp) liveThreads() int {
	n := 0
	for _, t := range in.threads {
		if !t.done {
			n++
		}
	}
	return n
}

func (t *thread) enabled() bool {
	if t.done {
		return false
	}
	if t.blocked == nil {
		return true
	}
	return t.blocked()
}

// spawn creates a new interpreted goroutine.
func (in *Interp) spawn(fr *frame, fn value, args []value, pos token.Pos, name string) *thread {
	t := &thread{id: len(in.threads), name: name, wake: make(chan bool)}
	if name == "" {
		t.name = fmt.Sprintf("go@%s", in.where(fr, pos))
	}
	base, k := t.name, 1
	for {
		dup := false
		for _, o := range in.threads {
			if o.name == t.name {
				dup = true
			}
		}
		if !dup {
			break
		}
		k++
		t.name = fmt.Sprintf("%s#%d", base, k)
	}
	in.threads = append(in.threads, t)
	in.hbSpawn(in.cur, t)
	done := in.pathDone
	go func() {
		if ok := <-t.wake; !ok {
			in.exited <- struct{}{}
			return
		}
		var res *pathResult
		func() {
			defer func() {
				if r := recover(); r != nil {
					switch r.(type) {
					case killThread:
						res = &pathResult{panicVal: r, thread: t}
					default:
						res = &pathResult{panicVal: r, thread: t}
					}
				}
			}()
			in.call(nil, pos, fn, args)
		}()
		if res != nil {
			if _, ok := res.panicVal.(killThread); ok {
				in.exited <- struct{}{}
				return
			}
			// an escaping panic / pathEnd / abort in a goroutine ends the path
			done <- *res
			<-t.wake // wait to be killed
			in.exited <- struct{}{}
			return
		}
		if t.isMain {
			done <- pathResult{thread: t}
			<-t.wake
			in.exited <- struct{}{}
			return
		}
		t.done = true
		in.hbRelease(t) // thread exit publishes its history (Join / wg.Wait style observers acquire it)
		in.reschedule(t, "exit", token.NoPos)
		in.exited <- struct{}{}
	}()
	return t
}

// reschedule is called by the current thread at a sync point (or when it blocks or
// exits). It picks the next thread to run and, if that is another thread, parks the
// caller until it is chosen again.
func (in *Interp) reschedule(self *thread, op string, pos token.Pos) {
	in.rescheduleAt(self, op, pos, "")
}

func (in *Interp) rescheduleAt(self *thread, op string, pos token.Pos, suffix string) {
	where := in.syncWhere(op, pos) + suffix
	freeYield := in.freeYield // (only the sleeping thread's own scheduling decision is free)
	in.freeYield = false
	var enabled []*thread
	for _, t := range in.threads {
		if t.joiner {
			continue
		}
		if t.enabled() {
			enabled = append(enabled, t)
		}
	}
	if len(enabled) == 0 {
		for _, t := range in.threads {
			if t.joiner && !t.done {
				enabled = append(enabled, t)
			}
		}
	}
	if len(enabled) == 0 {
		// nothing can run
		if self.done {
			// last runnable thread exited while others are blocked forever: if main is among
			// the blocked this is a deadlock, reported by main's driver
			in.pathDone <- pathResult{panicVal: deadlockErr{in.blockedDesc()}, thread: self}
			return
		}
		panic(deadlockErr{in.blockedDesc()})
	}
	selfEnabled := false
	for _, t := range enabled {
		if t == self {
			selfEnabled = true
		}
	}
	var next *thread
	if selfEnabled && (in.atomic > 0 || len(enabled) == 1) {
		next = self
	} else if len(enabled) == 1 {
		next = enabled[0]
	} else {
		var alts []int64
		if selfEnabled {
			alts = append(alts, int64(self.id))
			if in.preempts < in.maxPreempt || freeYield {
				for _, t := range enabled {
					if t != self {
						alts = append(alts, int64(t.id))
					}
				}
			}
		} else {
			for _, t := range enabled {
				alts = append(alts, int64(t.id))
			}
		}
		id := in.decide("sched", func() []int64 { return alts })
		next = in.threads[id]
		if selfEnabled && next != self && !freeYield {
			in.preempts++
		}
	}
	if next == self {
		return
	}
	step := schedStep{From: self.name, Pos: where, N: self.visits[where], To: next.name, Op: op}
	if suffix == "/wait" {
		step.Arr = self.visits[in.syncWhere(op, pos)]
	}
	in.sched = append(in.sched, step)
	next.visits = map[string]int{}
	in.cur = next
	next.wake <- true
	if self.done {
		return
	}
	if ok := <-self.wake; !ok {
		panic(killThread{})
	}
}

type deadlockErr struct{ desc string }

func (in *Interp) blockedDesc() string {
	s := ""
	for _, t := range in.threads {
		if !t.done && t.blocked != nil {
			s += fmt.Sprintf("[%s blocked on %s] ", t.name, t.desc)
		}
	}
	return s
}

// syncOp is a preemption point followed by waiting until pred holds.
func (in *Interp) syncOp(fr *frame, desc string, pos token.Pos, pred func() bool) {
	th := in.cur
	if in.liveThreads() == 1 {
		if pred == nil || pred() {
			in.visit(th, in.syncWhere(desc, pos))
			return
		}
	}
	if pred != nil {
		th.blocked = pred
		th.desc = desc
	}
	in.visit(th, in.syncWhere(desc, pos))
	in.reschedule(th, desc, pos)
	th.blocked = nil
	if pred != nil && !pred() {
		panic(abortHarness{"scheduler resumed a thread whose wait condition is false: " + desc})
	}
}

// ---------------------------------------------------------------- channels

func (in *Interp) blockedReceiver(ch *chanV) *thread {
	for _, t := range in.threads {
		if t == in.cur || t.done || t.blocked == nil || t.mbox.full {
			continue
		}
		for _, c := range t.waitRecv {
			if c == ch {
				return t
			}
		}
	}
	return nil
}

func (ch *chanV) pendingSend() *sendReq {
	for _, r := range ch.sendq {
		if !r.done {
			return r
		}
	}
	return nil
}

type selCase struct {
	ch   *chanV
	send bool
	v    value
}

func (in *Interp) caseReady(c selCase) bool {
	if c.ch == nil {
		return false
	}
	if c.send {
		return c.ch.closed || len(c.ch.buf) < c.ch.cap || in.blockedReceiver(c.ch) != nil
	}
	return len(c.ch.buf) > 0 || c.ch.closed || c.ch.pendingSend() != nil
}

// doSelect performs a select over the cases. Returns chosen index (-1 = default).
func (in *Interp) doSelect(fr *frame, cases []selCase, blocking bool, pos token.Pos) (int, value, bool) {
	th := in.cur
	// preemption point before looking at the channels
	in.syncOp(fr, "chan-op", pos, nil)
	for {
		var ready []int64
		for i, c := range cases {
			if in.caseReady(c) {
				ready = append(ready, int64(i))
			}
		}
		if len(ready) > 0 {
			var i int64
			if len(ready) == 1 {
				i = ready[0]
			} else {
				i = in.decide("select", func() []int64 { return ready })
			}
			c := cases[i]
			in.hbBoth(c.ch)
			if c.send {
				if c.ch.closed {
					panic(runtimePanic{"send on closed channel"})
				}
				if r := in.blockedReceiver(c.ch); r != nil && len(c.ch.buf) == 0 {
					r.mbox = mailbox{full: true, ch: c.ch, v: copyVal(c.v), ok: true}
				} else {
					c.ch.buf = append(c.ch.buf, copyVal(c.v))
				}
				return int(i), nil, false
			}
			// receive
			if len(c.ch.buf) > 0 {
				v := c.ch.buf[0]
				c.ch.buf = c.ch.buf[1:]
				if r := c.ch.pendingSend(); r != nil {
					r.done = true
					c.ch.buf = append(c.ch.buf, r.v)
				}
				return int(i), v, true
			}
			if r := c.ch.pendingSend(); r != nil {
				r.done = true
				return int(i), r.v, true
			}
			// closed
			return int(i), in.zero(c.ch.et), false
		}
		if !blocking {
			return -1, nil, false
		}
		// block: register
		th.waitRecv = th.waitRecv[:0]
		th.sends = th.sends[:0]
		th.mbox = mailbox{}
		sendIdx := map[*sendReq]int{}
		for i, c := range cases {
			if c.ch == nil {
				continue
			}
			if c.send {
				r := &sendReq{v: copyVal(c.v), th: th}
				c.ch.sendq = append(c.ch.sendq, r)
				th.sends = append(th.sends, r)
				sendIdx[r] = i
			} else {
				th.waitRecv = append(th.waitRecv, c.ch)
			}
		}
		pred := func() bool {
			if th.mbox.full {
				return true
			}
			for _, r := range th.sends {
				if r.done {
					return true
				}
			}
			for _, c := range cases {
				if c.ch == nil {
					continue
				}
				if !c.send && (len(c.ch.buf) > 0 || c.ch.closed) {
					return true
				}
				if c.send && (c.ch.closed || len(c.ch.buf) < c.ch.cap) {
					return true
				}
			}
			return false
		}
		th.blocked = pred
		th.desc = "select/chan"
		if len(cases) == 1 {
			if cases[0].send {
				th.desc = fmt.Sprintf("chan send (chan #%d)", cases[0].ch.id)
			} else if cases[0].ch != nil {
				th.desc = fmt.Sprintf("chan receive (chan #%d)", cases[0].ch.id)
			}
		}
		for _, c := range cases {
			if c.ch != nil {
				in.hbRelease(c.ch)
			}
		}
		in.visit(th, in.syncWhere(th.desc, pos)+"/wait")
		in.rescheduleAt(th, th.desc, pos, "/wait")
		th.blocked = nil
		for _, c := range cases {
			if c.ch != nil {
				in.hbAcquire(c.ch)
			}
		}
		// deregister
		var doneReq *sendReq
		for _, r := range th.sends {
			if r.done && doneReq == nil {
				doneReq = r
			}
		}
		for _, c := range cases {
			if c.ch != nil && c.send {
				q := c.ch.sendq[:0]
				for _, r := range c.ch.sendq {
					if r.th != th {
						q = append(q, r)
					}
				}
				c.ch.sendq = q
			}
		}
		th.waitRecv = th.waitRecv[:0]
		th.sends = th.sends[:0]
		if th.mbox.full {
			mb := th.mbox
			th.mbox = mailbox{}
			for i, c := range cases {
				if !c.send && c.ch == mb.ch {
					return i, mb.v, mb.ok
				}
			}
			panic("mailbox for unknown channel")
		}
		if doneReq != nil {
			return sendIdx[doneReq], nil, false
		}
		// otherwise loop: something became ready
	}
}

func (in *Interp) chanSend(fr *frame, ch *chanV, v value, pos token.Pos) {
	if ch == nil {
		in.syncOp(fr, "send on nil channel (blocks forever)", pos, func() bool { return false })
	}
	in.doSelect(fr, []selCase{{ch: ch, send: true, v: v}}, true, pos)
}

func (in *Interp) chanRecv(fr *frame, ch *chanV, commaOk bool, pos token.Pos) value {
	if ch == nil {
		in.syncOp(fr, "receive from nil channel (blocks forever)", pos, func() bool { return false })
	}
	_, v, ok := in.doSelect(fr, []selCase{{ch: ch}}, true, pos)
	if commaOk {
		return tuple{v, in.tt.Bool(ok)}
	}
	return v
}

func (in *Interp) chanClose(fr *frame, ch *chanV, cp token.Pos) {
	if ch == nil {
		panic(runtimePanic{"close of nil channel"})
	}
	in.hbRelease(ch)
	in.syncOp(fr, "close", cp, nil)
	if ch.closed {
		panic(runtimePanic{"close of closed channel"})
	}
	ch.closed = true
}

func (in *Interp) selectOp(fr *frame, instr *ssa.Select) value {
	var cases []selCase
	for _, st := range instr.States {
		c := selCase{ch: fr.get(st.Chan).(*chanV)}
		if st.Dir == types.SendOnly {
			c.send = true
			c.v = fr.get(st.Send)
		}
		cases = append(cases, c)
	}
	chosen, recv, recvOk := in.doSelect(fr, cases, instr.Blocking, instr.Pos())
	r := tuple{in.tt.Const(64, uint64(int64(chosen))), in.tt.Bool(recvOk)}
	for i, st := range instr.States {
		if st.Dir == types.RecvOnly {
			var v value
			if i == chosen && recvOk {
				v = recv
			} else {
				v = in.zero(st.Chan.Type().Underlying().(*types.Chan).Elem())
			}
			r = append(r, v)
		}
	}
	return r
}

// ---------------------------------------------------------------- mutexes

func (in *Interp) mutex(p *value) *mutexState {
	if p == nil {
		panic(runtimePanic{"invalid memory address or nil pointer dereference (nil mutex)"})
	}
	m := in.mutexes[p]
	if m == nil {
		m = &mutexState{}
		in.mutexes[p] = m
	}
	return m
}

// syncWhere names a synchronisation point the way the native instrumentation does.
func (in *Interp) syncWhere(op string, pos token.Pos) string {
	if pos == token.NoPos {
		switch op {
		case "exit", "join":
			return op
		}
		return "?" + op
	}
	return in.where(nil, pos)
}

func (in *Interp) visit(th *thread, where string) {
	if th.visits == nil {
		th.visits = map[string]int{}
	}
	th.visits[where]++
}
