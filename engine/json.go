package main

// encoding/json contract model (the real package is reflection-driven and cannot be
// interpreted). Marshal(v) returns an opaque blob: a byte slice of fresh symbolic bytes that
// remembers the Go value tree it stands for. Unmarshal(blob, &dst) performs the json-tag
// directed structural copy into dst's static type (calling UnmarshalJSON methods where the
// real decoder would). Unmarshal of bytes that are not a blob (arbitrary wire input) returns
// a decode error or fills dst with arbitrary values of its type (bounded strings/slices).
// Harnesses build inputs by json.Marshal of nondeterministic structs, so the same harness
// runs natively with real JSON.

import (
	"fmt"
	"go/types"
	"reflect"
	"strings"

	"golang.org/x/tools/go/ssa"
)

type jkind int

const (
	jNull jkind = iota
	jBool
	jNum
	jStr
	jArr
	jObj
)

type jval struct {
	k      jkind
	t      *Term // bool / number
	signed bool
	isFlt  bool
	f      float64
	s      strV
	arr    []*jval
	keys   []string
	vals   []*jval
}

type jsonBlob struct {
	id  int
	v   *jval
	len int
}

const jsonBlobLen = 6

func (in *Interp) newBlob(v *jval) []value {
	in.blobSeq++
	b := &jsonBlob{id: in.blobSeq, v: v, len: jsonBlobLen}
	in.blobs[b.id] = b
	out := make([]value, jsonBlobLen)
	for i := range out {
		out[i] = in.freshNamed(fmt.Sprintf("json#%d[%d]", b.id, i), 8)
	}
	return out
}

func (in *Interp) blobOf(data []value) *jsonBlob {
	if len(data) != jsonBlobLen {
		return nil
	}
	id := -1
	for i, e := range data {
		t, ok := e.(*Term)
		if !ok || t.op != OpVar {
			return nil
		}
		var bid, idx int
		if n, _ := fmt.Sscanf(t.name, "json#%d[%d]", &bid, &idx); n != 2 || idx != i {
			return nil
		}
		if i == 0 {
			id = bid
		} else if bid != id {
			return nil
		}
	}
	return in.blobs[id]
}

func jsonFieldName(f *types.Var, tag string) (name string, skip bool, omitempty bool) {
	if !f.Exported() {
		return "", true, false
	}
	jt := reflect.StructTag(tag).Get("json")
	if jt == "-" {
		return "", true, false
	}
	parts := strings.Split(jt, ",")
	name = f.Name()
	if parts[0] != "" {
		name = parts[0]
	}
	for _, p := range parts[1:] {
		if p == "omitempty" {
			omitempty = true
		}
	}
	return name, false, omitempty
}

// toJ converts a Go value of static type t to a json value tree.
func (in *Interp) toJ(t types.Type, v value) *jval {
	if it, ok := v.(iface); ok {
		if it.t == nil {
			return &jval{k: jNull}
		}
		return in.toJ(it.t, it.v)
	}
	switch u := t.Underlying().(type) {
	case *types.Basic:
		switch {
		case u.Info()&types.IsBoolean != 0:
			return &jval{k: jBool, t: v.(*Term)}
		case u.Info()&types.IsInteger != 0:
			_, signed, _ := isIntType(t)
			return &jval{k: jNum, t: v.(*Term), signed: signed}
		case u.Info()&types.IsFloat != 0:
			return &jval{k: jNum, isFlt: true, f: v.(float64)}
		case u.Info()&types.IsString != 0:
			return &jval{k: jStr, s: v.(strV)}
		}
	case *types.Pointer:
		p := v.(*value)
		if p == nil {
			return &jval{k: jNull}
		}
		return in.toJ(u.Elem(), *p)
	case *types.Struct:
		sv := v.(structure)
		j := &jval{k: jObj}
		for i := 0; i < u.NumFields(); i++ {
			f := u.Field(i)
			if f.Embedded() {
				// flatten embedded structs
				ft := f.Type()
				fv := sv[i]
				if pt, ok := ft.Underlying().(*types.Pointer); ok {
					p := fv.(*value)
					if p == nil {
						continue
					}
					ft, fv = pt.Elem(), *p
				}
				if _, ok := ft.Underlying().(*types.Struct); ok {
					sub := in.toJ(ft, fv)
					j.keys = append(j.keys, sub.keys...)
					j.vals = append(j.vals, sub.vals...)
					continue
				}
			}
			name, skip, _ := jsonFieldName(f, u.Tag(i))
			if skip {
				continue
			}
			j.keys = append(j.keys, name)
			j.vals = append(j.vals, in.toJ(f.Type(), sv[i]))
		}
		return j
	case *types.Slice:
		s := v.([]value)
		if s == nil {
			return &jval{k: jNull}
		}
		if eb, ok := u.Elem().Underlying().(*types.Basic); ok && eb.Kind() == types.Uint8 {
			// []byte marshals as base64 text; keep the bytes (opaque)
			b := make([]*Term, len(s))
			for i, e := range s {
				b[i] = e.(*Term)
			}
			return &jval{k: jStr, s: strV{b}}
		}
		j := &jval{k: jArr, arr: []*jval{}}
		for _, e := range s {
			j.arr = append(j.arr, in.toJ(u.Elem(), e))
		}
		return j
	case *types.Array:
		j := &jval{k: jArr, arr: []*jval{}}
		for _, e := range v.(array) {
			j.arr = append(j.arr, in.toJ(u.Elem(), e))
		}
		return j
	case *types.Map:
		m := v.(*mapV)
		if m == nil {
			return &jval{k: jNull}
		}
		j := &jval{k: jObj}
		for _, e := range m.entries {
			if !e.alive {
				continue
			}
			ks, ok := e.k.(strV)
			if !ok {
				in.unsupported("json.Marshal of map with non-string key")
			}
			k, conc := concStr(ks)
			if !conc {
				in.unsupported("json.Marshal of map with symbolic key")
			}
			j.keys = append(j.keys, k)
			j.vals = append(j.vals, in.toJ(u.Elem(), e.v))
		}
		return j
	case *types.Interface:
		return in.toJ(t, v)
	}
	in.unsupported("json.Marshal of %v", t)
	return nil
}

func (j *jval) get(name string) *jval {
	for i, k := range j.keys {
		if k == name {
			return j.vals[i]
		}
	}
	for i, k := range j.keys {
		if strings.EqualFold(k, name) {
			return j.vals[i]
		}
	}
	return nil
}

type jsonErr struct{ msg string }

// fromJ decodes j into the cell at dst (static type t). Returns an error string on a
// type mismatch the real decoder reports (UnmarshalTypeError).
func (in *Interp) fromJ(fr *frame, j *jval, t types.Type, dst *value) string {
	// custom decoder?
	if m := in.unmarshalerOf(t); m != nil {
		// UnmarshalJSON(data) on *T with a sub-blob
		sub := in.newBlob(j)
		r := in.call(fr, 0, m, []value{dst, sub})
		if e, ok := r.(iface); ok && e.t != nil {
			return "UnmarshalJSON error"
		}
		return ""
	}
	if j.k == jNull {
		switch t.Underlying().(type) {
		case *types.Pointer, *types.Slice, *types.Map, *types.Interface:
			*dst = in.zero(t)
		}
		return ""
	}
	switch u := t.Underlying().(type) {
	case *types.Basic:
		switch {
		case u.Info()&types.IsBoolean != 0:
			if j.k != jBool {
				return "cannot unmarshal into bool"
			}
			*dst = j.t
		case u.Info()&types.IsInteger != 0:
			if j.k != jNum {
				return "cannot unmarshal into integer"
			}
			w, _, _ := isIntType(t)
			if j.isFlt {
				if j.f != float64(int64(j.f)) {
					return "cannot unmarshal fraction into integer"
				}
				*dst = in.tt.Const(w, uint64(int64(j.f)))
			} else if j.signed {
				*dst = in.tt.SExt(j.t, w)
				if j.t.w > w {
					*dst = in.tt.Extract(j.t, w-1, 0)
				}
			} else {
				*dst = in.tt.ZExt(j.t, w)
			}
		case u.Info()&types.IsFloat != 0:
			if j.k != jNum {
				return "cannot unmarshal into float"
			}
			if j.isFlt {
				*dst = j.f
			} else if j.t.IsConst() {
				*dst = float64(j.t.sval())
			} else {
				in.unsupported("json: symbolic integer decoded into float")
			}
		case u.Info()&types.IsString != 0:
			if j.k != jStr {
				return "cannot unmarshal into string"
			}
			*dst = j.s
		}
		return ""
	case *types.Pointer:
		var cell value = in.zero(u.Elem())
		p := &cell
		if old, ok := (*dst).(*value); ok && old != nil {
			p = old
		}
		if e := in.fromJ(fr, j, u.Elem(), p); e != "" {
			return e
		}
		*dst = p
		return ""
	case *types.Struct:
		if j.k != jObj {
			return "cannot unmarshal non-object into struct"
		}
		sv := (*dst).(structure)
		for i := 0; i < u.NumFields(); i++ {
			f := u.Field(i)
			if f.Embedded() {
				if _, ok := f.Type().Underlying().(*types.Struct); ok {
					if e := in.fromJ(fr, j, f.Type(), &sv[i]); e != "" {
						return e
					}
					continue
				}
			}
			name, skip, _ := jsonFieldName(f, u.Tag(i))
			if skip {
				continue
			}
			if fv := j.get(name); fv != nil {
				if e := in.fromJ(fr, fv, f.Type(), &sv[i]); e != "" {
					return e
				}
			}
		}
		return ""
	case *types.Slice:
		if eb, ok := u.Elem().Underlying().(*types.Basic); ok && eb.Kind() == types.Uint8 && j.k == jStr {
			r := make([]value, len(j.s.b))
			for i, b := range j.s.b {
				r[i] = b
			}
			*dst = r
			return ""
		}
		if j.k != jArr {
			return "cannot unmarshal non-array into slice"
		}
		r := make([]value, len(j.arr))
		for i, e := range j.arr {
			r[i] = in.zero(u.Elem())
			if er := in.fromJ(fr, e, u.Elem(), &r[i]); er != "" {
				return er
			}
		}
		*dst = r
		return ""
	case *types.Map:
		if j.k != jObj {
			return "cannot unmarshal non-object into map"
		}
		m, _ := (*dst).(*mapV)
		if m == nil {
			m = &mapV{kt: u.Key(), vt: u.Elem()}
		}
		for i, k := range j.keys {
			var cell value = in.zero(u.Elem())
			if er := in.fromJ(fr, j.vals[i], u.Elem(), &cell); er != "" {
				return er
			}
			in.mapInsert(m, in.mkStr(k), cell)
		}
		*dst = m
		return ""
	case *types.Interface:
		// interface{}: natural Go value of the json value
		*dst = in.jToAny(j)
		return ""
	}
	in.unsupported("json.Unmarshal into %v", t)
	return ""
}

func (in *Interp) jToAny(j *jval) value {
	switch j.k {
	case jNull:
		return iface{}
	case jBool:
		return iface{types.Typ[types.Bool], j.t}
	case jStr:
		return iface{types.Typ[types.String], j.s}
	case jNum:
		if j.isFlt {
			return iface{types.Typ[types.Float64], j.f}
		}
		if j.t.IsConst() {
			return iface{types.Typ[types.Float64], float64(j.t.sval())}
		}
		in.unsupported("json: symbolic number decoded into interface{}")
	case jArr:
		r := make([]value, len(j.arr))
		for i, e := range j.arr {
			r[i] = in.jToAny(e)
		}
		return iface{types.NewSlice(types.NewInterfaceType(nil, nil)), r}
	case jObj:
		et := types.NewInterfaceType(nil, nil)
		m := &mapV{kt: types.Typ[types.String], vt: et}
		for i, k := range j.keys {
			in.mapInsert(m, in.mkStr(k), in.jToAny(j.vals[i]))
		}
		return iface{types.NewMap(types.Typ[types.String], et), m}
	}
	return iface{}
}

// unmarshalerOf returns (*T).UnmarshalJSON if *T implements json.Unmarshaler.
func (in *Interp) unmarshalerOf(t types.Type) *ssa.Function {
	if _, ok := t.(*types.Named); !ok {
		if _, ok := t.(*types.Alias); !ok {
			return nil
		}
	}
	pt := types.NewPointer(t)
	ms := in.prog.MethodSets.MethodSet(pt)
	for i := 0; i < ms.Len(); i++ {
		if ms.At(i).Obj().Name() == "UnmarshalJSON" {
			return in.prog.MethodValue(ms.At(i))
		}
	}
	return nil
}

// havoc fills a cell with an arbitrary value of type t (bounded strings and slices).
func (in *Interp) havoc(t types.Type, dst *value, name string, depth int) {
	switch u := t.Underlying().(type) {
	case *types.Basic:
		switch {
		case u.Info()&types.IsBoolean != 0:
			*dst = in.fresh(name, 0)
		case u.Info()&types.IsInteger != 0:
			w, _, _ := isIntType(t)
			*dst = in.fresh(name, w)
		case u.Info()&types.IsString != 0:
			nm := in.uniq(name)
			n := in.decide("len:"+nm, func() []int64 { return []int64{0, 1, 2} })
			in.noteLen(nm, n)
			b := make([]*Term, n)
			for i := range b {
				b[i] = in.freshNamed(fmt.Sprintf("%s[%d]", nm, i), 8)
			}
			*dst = strV{b}
		case u.Info()&types.IsFloat != 0:
			*dst = float64(0)
		}
	case *types.Struct:
		sv := (*dst).(structure)
		for i := 0; i < u.NumFields(); i++ {
			if !u.Field(i).Exported() {
				continue
			}
			if _, skip, _ := jsonFieldName(u.Field(i), u.Tag(i)); skip {
				continue
			}
			in.havoc(u.Field(i).Type(), &sv[i], name+"."+u.Field(i).Name(), depth+1)
		}
	case *types.Pointer:
		if depth > 3 {
			return
		}
		var cell value = in.zero(u.Elem())
		in.havoc(u.Elem(), &cell, name, depth+1)
		*dst = &cell
	case *types.Slice:
		if depth > 3 {
			return
		}
		nm := in.uniq(name + ".n")
		n := in.decide("len:"+nm, func() []int64 { return []int64{0, 1} })
		in.noteLen(nm, n)
		r := make([]value, n)
		for i := range r {
			r[i] = in.zero(u.Elem())
			in.havoc(u.Elem(), &r[i], fmt.Sprintf("%s[%d]", name, i), depth+1)
		}
		*dst = r
	}
}

func init() {
	intrinsics["encoding/json.Marshal"] = func(in *Interp, fr *frame, args []value) value {
		it := args[0].(iface)
		var j *jval
		if it.t == nil {
			j = &jval{k: jNull}
		} else {
			j = in.toJ(it.t, it.v)
		}
		return tuple{in.newBlob(j), iface{}}
	}
	intrinsics["encoding/json.MarshalIndent"] = func(in *Interp, fr *frame, args []value) value {
		return intrinsics["encoding/json.Marshal"](in, fr, args[:1])
	}
	intrinsics["encoding/json.Unmarshal"] = func(in *Interp, fr *frame, args []value) value {
		data := args[0].([]value)
		dst := args[1].(iface)
		pt, ok := dst.t.Underlying().(*types.Pointer)
		if dst.t == nil || !ok || dst.v.(*value) == nil {
			return in.newError(in.mkStr("json: Unmarshal(non-pointer or nil)"))
		}
		p := dst.v.(*value)
		if b := in.blobOf(data); b != nil {
			if e := in.fromJ(fr, b.v, pt.Elem(), p); e != "" {
				return in.newError(in.mkStr("json: " + e))
			}
			return iface{}
		}
		// a torn or extended document (strict prefix of a blob, or a blob followed by other
		// bytes) is never valid JSON for an object/array destination
		if len(data) > 0 {
			if t, ok := data[0].(*Term); ok && t.op == OpVar && strings.HasPrefix(t.name, "json#") && strings.HasSuffix(t.name, "[0]") {
				return in.newError(in.mkStr("json: truncated or trailing data (modelled)"))
			}
		}
		// arbitrary bytes: decode error, or any value of the destination type.
		// (no JSON document is empty; an object/array needs at least two bytes)
		minLen := 1
		switch pt.Elem().Underlying().(type) {
		case *types.Struct, *types.Map, *types.Slice:
			minLen = 2
		}
		if len(data) < minLen {
			return in.newError(in.mkStr("json: unexpected end of JSON input (modelled)"))
		}
		switch in.decide("json-arbitrary", func() []int64 { return []int64{0, 1} }) {
		case 0:
			return in.newError(in.mkStr("json: invalid input (modelled)"))
		}
		in.havoc(pt.Elem(), p, in.uniq("jsonany"), 0)
		return iface{}
	}
}
