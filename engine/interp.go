package main

// Symbolic interpreter for go/ssa: concrete object graph, symbolic scalars, forking by
// re-execution under a decision prefix (stateless DFS).

import (
	"fmt"
	"go/token"
	"go/types"
	"os"
	"slices"
	"sort"
	"strconv"
	"strings"
	"sync"

	"golang.org/x/tools/go/ssa"
)

type continuation int

const (
	kNext continuation = iota
	kReturn
	kJump
)

// control-flow sentinels carried by host panics
type targetPanic struct{ v value }     // panic(v) in the target program
type runtimePanic struct{ msg string } // Go runtime error in the target program
type pathEnd struct{ reason string }   // silently end this path (assume false ...)
type abortHarness struct{ msg string } // unsupported construct: harness inconclusive
type killThread struct{}

type qcEntry struct {
	r    Result
	vals map[int]uint64
}

type decision struct {
	alts []int64
	idx  int
	kind string
}

type frame struct {
	in               *Interp
	th               *thread
	caller           *frame
	fn               *ssa.Function
	block, prevBlock *ssa.BasicBlock
	env              map[ssa.Value]value
	locals           []value
	defers           *deferred
	result           value
	panicking        bool
	panic            interface{}
	phitemps         []value
	callpos          token.Pos
	skipPhis         bool
}

type Violation struct {
	Label   string
	Kind    string // assert | panic | deadlock | alloc
	Detail  string
	Model   map[string]uint64
	Trail   []int64
	Sched   []schedStep
	Stack   string
	Observe map[string]string
}

type Interp struct {
	crossNext bool // the next decided query is an assertion verdict: diff it with the second solver
	crossLeft int
	race     raceState
	curFrame *frame
	curPos   token.Pos
	prog    *ssa.Program
	tt      *TermTable
	solver  *Solver
	solver2 *Solver // optional cross-check
	globals map[*ssa.Global]*value
	frozen  map[*ssa.Global]*value
	initPkgs []*ssa.Package

	// path state
	pc       []*Term
	trail    []decision
	tp       int
	steps    int
	model    map[string]uint64 // a model of pc (or nil)
	vars     []*Term           // nondet variables of this path, in creation order
	varSeen  map[string]int
	observes map[string]*Term
	nameCtr  map[string]int
	allocLimit int64
	allocCut   bool

	// scheduler
	threads   []*thread
	cur       *thread
	atomic    int
	preempts  int
	maxPreempt int
	sched     []schedStep
	chanSeq   int
	hook      map[string]value // verifrt.Stub redirects

	// per-harness accumulated results
	h *HarnessRun

	// config
	tier       string
	maxSteps   int
	maxPaths   int
	stepLimitHit bool
	trace      bool
	clockLast  *Term
	clockLo, clockHi *Term
	sleepYields      bool // verifrt.SleepYields: leaving a sleeping thread costs no preemption
	freeYield        bool // (set while such a sleep is being scheduled)
	clockN     int
	mutexes    map[*value]*mutexState
	onceState  map[*value]*onceSt
	wgState    map[*value]*wgSt
	poolState  map[*value][]value
	ghost      map[string]value
	callDepth  int
	pathDone   chan pathResult
	blobs      map[int]*jsonBlob
	blobSeq    int
	varMemo    map[int][]int
	qcache     map[string]*qcEntry
	noSlice    bool
	loopSpecs  map[string]*loopSpec
	loopPost   map[string]value
	loopBlocked bool
	regexps    map[*value]string
	fnInfos    map[*ssa.Function]*fnInfo
	fnInfoMu   sync.Mutex
	spec       int
	noIfConv   bool
	exited     chan struct{}
}

type HarnessRun struct {
	Name         string
	Paths        int
	Steps        int
	Obligations  int
	Discharged   int
	Trivial      int
	Undecided    int
	Violations   []*Violation
	ViolCount    map[string]int
	Reached      map[string]bool
	ReachDecl    map[string]bool
	ReachModel   map[string]map[string]uint64
	ReachObserve map[string]map[string]uint64
	ReachTrail   map[string][]int64
	ReachSched   map[string][]schedStep
	PossDecl     map[string]map[string]uint64 // Possible labels -> model of the first path that declared them
	Funcs        map[string]bool
	Intrinsics   map[string]bool
	Inconclusive []string
	Bounds       map[string]int64
	Decisions    int
	UnknownBranches int
	RetriedUnknown  int // queries the resident solver timed out on and the retry decided
	Samples      []string
	IfConverted  int
	AllocCuts    int
	Sliced       int
	CacheHits    int
	budgetHit    bool
	CrossChecked int // assertion verdicts re-decided by the second solver (cvc5)
	CrossAgreed  int
	CrossUnknown int
}

func newHarnessRun(name string) *HarnessRun {
	return &HarnessRun{Name: name, ViolCount: map[string]int{}, Reached: map[string]bool{}, ReachDecl: map[string]bool{},
		ReachModel: map[string]map[string]uint64{}, ReachObserve: map[string]map[string]uint64{}, ReachTrail: map[string][]int64{}, ReachSched: map[string][]schedStep{}, PossDecl: map[string]map[string]uint64{},
		Funcs: map[string]bool{}, Intrinsics: map[string]bool{}, Bounds: map[string]int64{}}
}

func (in *Interp) unsupported(format string, args ...interface{}) {
	panic(abortHarness{fmt.Sprintf(format, args...)})
}

// ---------------------------------------------------------------- decisions

func (in *Interp) decide(kind string, gen func() []int64) int64 {
	if in.spec > 0 {
		panic(specAbort{})
	}
	if in.tp < len(in.trail) {
		d := &in.trail[in.tp]
		in.tp++
		if d.kind != kind {
			panic(abortHarness{fmt.Sprintf("non-deterministic re-execution: decision %d was %q, now %q", in.tp-1, d.kind, kind)})
		}
		if in.tp == len(in.trail) {
			// the last decision of the prefix is the one that was just advanced
			in.model = nil
		}
		return d.alts[d.idx]
	}
	if len(in.trail) > 4000 {
		panic(abortHarness{"more than 4000 decisions on one path (unwinding failure)"})
	}
	alts := gen()
	if len(alts) == 0 {
		panic(pathEnd{"no feasible alternative at " + kind})
	}
	in.trail = append(in.trail, decision{alts: alts, idx: 0, kind: kind})
	in.tp++
	in.h.Decisions++
	return alts[0]
}

// backtrack advances the trail to the next unexplored path; false when done.
func (in *Interp) backtrack() bool {
	for len(in.trail) > 0 {
		d := &in.trail[len(in.trail)-1]
		if d.idx+1 < len(d.alts) {
			d.idx++
			return true
		}
		in.trail = in.trail[:len(in.trail)-1]
	}
	return false
}

func (in *Interp) check(extra ...*Term) (Result, map[int]uint64) {
	var as []*Term
	want := in.vars
	sliced := false
	if in.model != nil && len(extra) > 0 && !in.noSlice {
		rel, vars := in.sliceFor(extra)
		as = append(as, rel...)
		as = append(as, extra...)
		want = nil
		for _, v := range in.vars {
			if vars[v.id] {
				want = append(want, v)
			}
		}
		sliced = true
		in.h.Sliced++
	} else {
		as = make([]*Term, 0, len(in.pc)+len(extra))
		as = append(as, in.pc...)
		as = append(as, extra...)
	}
	// query cache: re-executed prefixes ask identical questions (terms are hash-consed)
	ids := make([]int, len(as))
	for i, a := range as {
		ids[i] = a.id
	}
	sort.Ints(ids)
	var kb strings.Builder
	for _, id := range ids {
		kb.WriteString(strconv.Itoa(id))
		kb.WriteByte(',')
	}
	key := kb.String()
	if ce, ok := in.qcache[key]; ok {
		hit := true
		if ce.r == Sat {
			for _, v := range want {
				if _, ok := ce.vals[v.id]; !ok {
					hit = false
					break
				}
			}
		}
		if hit {
			in.h.CacheHits++
			var vals map[int]uint64
			if ce.r == Sat {
				vals = make(map[int]uint64, len(ce.vals))
				for k, v := range ce.vals {
					vals[k] = v
				}
				if sliced {
					for _, v := range in.vars {
						if _, ok := vals[v.id]; !ok {
							vals[v.id] = in.model[v.name]
						}
					}
				}
			}
			return ce.r, vals
		}
	}
	r, vals, msg := in.solver.Check(as, want)
	if r == Unknown {
		// a timeout of the resident solver (typically a loaded machine): one retry in a fresh
		// z3 5.x process with four times the limit before the query counts as undecided
		if s2, err := NewSolver(KindZ3New, in.tt, in.solver.timeoutMs*4); err == nil {
			r2, vals2, _ := s2.Check(as, want)
			s2.Close()
			if r2 == Sat || r2 == Unsat {
				r, vals = r2, vals2
				in.solver.nUnknown--
				if r2 == Sat {
					in.solver.nSat++
				} else {
					in.solver.nUnsat++
				}
				in.h.RetriedUnknown++
			}
		}
	}
	if in.crossNext {
		in.crossNext = false
		in.crossCheck(as, r)
	}
	if r == Sat || r == Unsat {
		cv := map[int]uint64{}
		for k, v := range vals {
			cv[k] = v
		}
		if len(in.qcache) < 200000 {
			in.qcache[key] = &qcEntry{r: r, vals: cv}
		}
	}
	if r == SolverError {
		in.h.Inconclusive = append(in.h.Inconclusive, "solver error: "+msg)
		// restart solver
		in.solver.Close()
		s, err := NewSolver(in.solver.kind, in.tt, in.solver.timeoutMs)
		if err == nil {
			s.nSat, s.nUnsat, s.nUnknown, s.nErr, s.wall = in.solver.nSat, in.solver.nUnsat, in.solver.nUnknown, in.solver.nErr, in.solver.wall
			in.solver = s
		}
		return Unknown, nil
	}
	if r == Sat && sliced {
		if vals == nil {
			vals = map[int]uint64{}
		}
		for _, v := range in.vars {
			if _, ok := vals[v.id]; !ok {
				vals[v.id] = in.model[v.name]
			}
		}
	}
	return r, vals
}

func (in *Interp) modelFrom(vals map[int]uint64) map[string]uint64 {
	m := map[string]uint64{}
	for _, v := range in.vars {
		m[v.name] = vals[v.id]
	}
	return m
}

// branch decides a symbolic condition, forking when both sides are feasible.
func (in *Interp) branch(cond *Term, kind string) bool {
	if cond.IsConst() {
		return cond.val != 0
	}
	var mT, mF map[string]uint64
	v := in.decide("br:"+kind, func() []int64 {
		var alts []int64
		known := -1
		if in.model != nil && in.tt.evaluable(cond, map[int]bool{}, in.model) {
			known = int(in.tt.Eval(cond, in.model, map[int]uint64{}))
		}
		tryT, tryF := true, true
		if known == 1 {
			alts = append(alts, 1)
			mT = in.model
			tryT = false
		} else if known == 0 {
			mF = in.model
			tryF = false
		}
		if tryT {
			r, vals := in.check(cond)
			if r == Sat {
				alts = append(alts, 1)
				mT = in.modelFrom(vals)
			} else if r == Unknown {
				alts = append(alts, 1)
				in.h.UnknownBranches++
			}
		}
		if known == 0 {
			alts = append(alts, 0)
		}
		if tryF {
			if tryT && len(alts) == 0 {
				// cond is unsat under a satisfiable pc: the other side holds
				alts = append(alts, 0)
				mF = in.model
			} else {
				r, vals := in.check(in.tt.Not(cond))
				if r == Sat {
					alts = append(alts, 0)
					mF = in.modelFrom(vals)
				} else if r == Unknown {
					alts = append(alts, 0)
					in.h.UnknownBranches++
				}
			}
		}
		return alts
	})
	if v == 1 {
		in.pc = append(in.pc, cond)
		if mT != nil || mF != nil {
			in.model = mT
		}
		return true
	}
	in.pc = append(in.pc, in.tt.Not(cond))
	if mT != nil || mF != nil {
		in.model = mF
	}
	return false
}

// concretize forks over the feasible values of a term (bounded enumeration).
func (in *Interp) concretize(t *Term, kind string, max int) int64 {
	if t.IsConst() {
		return t.sval()
	}
	v := in.decide("val:"+kind, func() []int64 {
		var alts []int64
		var blocks []*Term
		for len(alts) <= max {
			as := append(append([]*Term{}, in.pc...), blocks...)
			r, vals, _ := in.solver.Check(as, []*Term{t})
			if r == Unsat {
				break
			}
			if r != Sat {
				in.h.Inconclusive = append(in.h.Inconclusive, "unknown while enumerating values for "+kind)
				break
			}
			c := in.tt.Const(t.w, vals[t.id])
			alts = append(alts, c.sval())
			blocks = append(blocks, in.tt.Not(in.tt.Eq(t, c)))
		}
		if len(alts) > max {
			panic(abortHarness{fmt.Sprintf("more than %d feasible values for %s", max, kind)})
		}
		sort.Slice(alts, func(i, j int) bool { return alts[i] < alts[j] })
		return alts
	})
	in.pc = append(in.pc, in.tt.Eq(t, in.tt.Const(t.w, uint64(v))))
	in.model = nil
	return v
}

// ---------------------------------------------------------------- frames

func (fr *frame) get(key ssa.Value) value {
	switch key := key.(type) {
	case nil:
		return nil
	case *ssa.Function, *ssa.Builtin:
		return key
	case *ssa.Const:
		return fr.in.constValue(key)
	case *ssa.Global:
		return fr.in.globalAddr(key)
	}
	if r, ok := fr.env[key]; ok {
		return r
	}
	panic(fmt.Sprintf("get: no value for %T: %v in %s", key, key.Name(), fr.fn))
}

func (in *Interp) globalAddr(g *ssa.Global) *value {
	if r, ok := in.globals[g]; ok {
		return r
	}
	cell := in.zero(deref(g.Type()))
	in.globals[g] = &cell
	return &cell
}

func deref(t types.Type) types.Type {
	if p, ok := t.Underlying().(*types.Pointer); ok {
		return p.Elem()
	}
	panic(fmt.Sprintf("deref of non-pointer %v", t))
}

func (fr *frame) runDefer(d *deferred) {
	var ok bool
	defer func() {
		if !ok {
			r := recover()
			switch r.(type) {
			case pathEnd, abortHarness, killThread, loopBackEdge, deadlockErr:
				panic(r)
			}
			fr.panicking = true
			fr.panic = r
		}
	}()
	fr.in.call(fr, d.instr.Pos(), d.fn, d.args)
	ok = true
}

func (fr *frame) runDefers() {
	for d := fr.defers; d != nil; d = d.tail {
		fr.runDefer(d)
	}
	fr.defers = nil
	if fr.panicking {
		panic(fr.panic)
	}
}

func (in *Interp) lookupMethod(typ types.Type, meth *types.Func) *ssa.Function {
	return in.prog.LookupMethod(typ, meth.Pkg(), meth.Name())
}

func (in *Interp) prepareCall(fr *frame, call *ssa.CallCommon) (fn value, args []value) {
	v := fr.get(call.Value)
	if call.Method == nil {
		fn = v
	} else {
		recv := v.(iface)
		if recv.t == nil {
			panic(runtimePanic{"invalid memory address or nil pointer dereference (method on nil interface " + call.Method.Name() + ")"})
		}
		f := in.lookupMethod(recv.t, call.Method)
		if f == nil {
			panic(fmt.Sprintf("method set for dynamic type %v does not contain %s", recv.t, call.Method))
		}
		fn = f
		args = append(args, recv.v)
	}
	for _, arg := range call.Args {
		args = append(args, fr.get(arg))
	}
	return
}

func (in *Interp) call(caller *frame, callpos token.Pos, fn value, args []value) value {
	switch fn := fn.(type) {
	case *ssa.Function:
		if fn == nil {
			panic(runtimePanic{"invalid memory address or nil pointer dereference (call of nil func)"})
		}
		return in.callSSA(caller, callpos, fn, args, nil)
	case *closure:
		return in.callSSA(caller, callpos, fn.Fn, args, fn.Env)
	case *ssa.Builtin:
		return in.callBuiltin(caller, callpos, fn, args)
	case *nativeFn:
		return fn.f(in, caller, args)
	}
	panic(fmt.Sprintf("cannot call %T", fn))
}

type nativeFn struct {
	name string
	f    func(in *Interp, fr *frame, args []value) value
}

func (in *Interp) callSSA(caller *frame, callpos token.Pos, fn *ssa.Function, args []value, env []value) value {
	var th *thread
	if caller != nil {
		th = caller.th
	} else {
		th = in.cur
	}
	fr := &frame{in: in, caller: caller, fn: fn, th: th, callpos: callpos}
	name := fn.String()
	if fn.Parent() == nil {
		if h, ok := in.hook[name]; ok {
			return in.call(caller, callpos, h, args)
		}
		if ext := intrinsics[name]; ext != nil {
			in.h.Intrinsics[name] = true
			return ext(in, fr, args)
		}
		if fn.Blocks == nil {
			// synthetic wrappers etc. should have bodies; anything else is outside reach
			in.unsupported("no code for function %s (called from %s)", name, in.where(caller, callpos))
		}
	}
	if fn.TypeParams().Len() > 0 && len(fn.TypeArgs()) == 0 {
		in.unsupported("uninstantiated generic %s", name)
	}
	if fn.Pkg != nil || fn.Parent() != nil {
		in.h.Funcs[name] = true
	}
	in.callDepth++
	if in.callDepth > 400 {
		in.unsupported("call depth exceeded at %s", name)
	}
	defer func() { in.callDepth-- }()
	fr.env = make(map[ssa.Value]value, 16)
	fr.block = fn.Blocks[0]
	fr.locals = make([]value, len(fn.Locals))
	for i, l := range fn.Locals {
		fr.locals[i] = in.zero(deref(l.Type()))
		fr.env[l] = &fr.locals[i]
	}
	for i, p := range fn.Params {
		fr.env[p] = args[i]
	}
	for i, fv := range fn.FreeVars {
		fr.env[fv] = env[i]
	}
	for fr.block != nil {
		in.runFrame(fr)
	}
	return fr.result
}

func (in *Interp) where(fr *frame, pos token.Pos) string {
	if pos != token.NoPos {
		p := in.prog.Fset.Position(pos)
		return fmt.Sprintf("%s:%d", shortFile(p.Filename), p.Line)
	}
	if fr != nil {
		return fr.fn.String()
	}
	return "?"
}

func shortFile(f string) string {
	f = strings.TrimPrefix(f, strings.TrimSuffix(repoDir(), "/")+"/")
	f = strings.TrimPrefix(f, "/repo/")
	if i := strings.Index(f, "/pkg/mod/"); i >= 0 {
		f = f[i+9:]
	}
	if i := strings.Index(f, "/src/"); i >= 0 && strings.Contains(f, "go") {
		f = f[i+5:]
	}
	return f
}

func (in *Interp) stack(fr *frame) string {
	var sb strings.Builder
	n := 0
	for f := fr; f != nil && n < 12; f = f.caller {
		if n > 0 {
			sb.WriteString(" <- ")
		}
		sb.WriteString(f.fn.String())
		if f.callpos != token.NoPos {
			sb.WriteString("@" + in.where(nil, f.callpos))
		}
		n++
	}
	return sb.String()
}

func (in *Interp) runFrame(fr *frame) {
	defer func() {
		if fr.block == nil {
			return // normal return
		}
		r := recover()
		switch r.(type) {
		case pathEnd, abortHarness, killThread, loopBackEdge, deadlockErr:
			panic(r)
		case targetPanic, runtimePanic:
		default:
			// interpreter bug or unsupported: surface with location
			panic(abortHarness{fmt.Sprintf("internal: %v in %s", r, in.stack(fr))})
		}
		if rp, ok := r.(runtimePanic); ok && !strings.Contains(rp.msg, " [at ") {
			r = runtimePanic{rp.msg + " [at " + in.stack(fr) + "]"}
		}
		fr.panicking = true
		fr.panic = r
		fr.runDefers()
		fr.block = fr.fn.Recover
	}()
	for {
		nonPhis := in.executePhis(fr)
		if len(in.loopSpecs) > 0 {
			in.loopHook(fr)
		}
		for _, instr := range nonPhis {
			in.steps++
			if in.steps > in.maxSteps {
				in.stepLimitHit = true
				panic(abortHarness{fmt.Sprintf("step limit %d exceeded (unwinding failure) in %s", in.maxSteps, fr.fn)})
			}
			if in.trace {
				if v, ok := instr.(ssa.Value); ok {
					fmt.Fprintf(os.Stderr, "[%s] %s = %s\n", fr.fn.Name(), v.Name(), instr)
				} else {
					fmt.Fprintf(os.Stderr, "[%s] %s\n", fr.fn.Name(), instr)
				}
			}
			if in.race.on {
				in.curFrame = fr
				if p := instr.Pos(); p != token.NoPos {
					in.curPos = p
				}
			}
			if in.visitInstr(fr, instr) == kReturn {
				return
			}
		}
	}
}

func (in *Interp) executePhis(fr *frame) []ssa.Instruction {
	firstNonPhi := -1
	for i, instr := range fr.block.Instrs {
		if _, ok := instr.(*ssa.Phi); !ok {
			firstNonPhi = i
			break
		}
	}
	nonPhis := fr.block.Instrs[firstNonPhi:]
	if fr.skipPhis {
		fr.skipPhis = false
		return nonPhis
	}
	if firstNonPhi > 0 {
		phis := fr.block.Instrs[:firstNonPhi]
		predIndex := slices.Index(fr.block.Preds, fr.prevBlock)
		fr.phitemps = fr.phitemps[:0]
		for _, phi := range phis {
			phi := phi.(*ssa.Phi)
			fr.phitemps = append(fr.phitemps, fr.get(phi.Edges[predIndex]))
		}
		for i, phi := range phis {
			fr.env[phi.(*ssa.Phi)] = fr.phitemps[i]
		}
	}
	return nonPhis
}

func (in *Interp) doRecover(caller *frame) value {
	if caller != nil && !caller.panicking && caller.caller != nil && caller.caller.panicking {
		caller.caller.panicking = false
		p := caller.caller.panic
		caller.caller.panic = nil
		switch p := p.(type) {
		case targetPanic:
			return p.v
		case runtimePanic:
			return iface{in.runtimeErrorType(), in.mkStr(p.msg)}
		default:
			panic(fmt.Sprintf("unexpected panic type %T in recover()", p))
		}
	}
	return iface{}
}

func (in *Interp) runtimeErrorType() types.Type {
	rt := in.prog.ImportedPackage("runtime")
	if rt != nil {
		if t := rt.Type("errorString"); t != nil {
			return t.Object().Type()
		}
	}
	return types.Typ[types.String]
}

// ---------------------------------------------------------------- pointers

func (in *Interp) loadPtr(T types.Type, p value) value {
	switch p := p.(type) {
	case *value:
		if p == nil {
			panic(runtimePanic{"invalid memory address or nil pointer dereference"})
		}
		if in.race.on {
			in.raceRead(p)
		}
		return copyVal(*p)
	case symElemPtr:
		// ite-chain for scalars, fork otherwise
		if len(p.base) > 0 {
			if _, ok := p.base[0].(*Term); ok {
				r := p.base[len(p.base)-1].(*Term)
				for j := len(p.base) - 2; j >= 0; j-- {
					r = in.tt.Ite(in.tt.Eq(p.idx, in.tt.Const(p.idx.w, uint64(j))), p.base[j].(*Term), r)
				}
				return r
			}
		}
		j := in.concretize(p.idx, "elemptr-load", 64)
		return copyVal(p.base[j])
	}
	panic(fmt.Sprintf("load through %T", p))
}

func (in *Interp) storePtr(T types.Type, p value, v value) {
	switch p := p.(type) {
	case *value:
		if p == nil {
			panic(runtimePanic{"invalid memory address or nil pointer dereference"})
		}
		if in.race.on {
			in.raceWrite(p)
		}
		assign(p, v)
		return
	case symElemPtr:
		if vt, ok := v.(*Term); ok {
			for j := range p.base {
				p.base[j] = in.tt.Ite(in.tt.Eq(p.idx, in.tt.Const(p.idx.w, uint64(j))), vt, p.base[j].(*Term))
			}
			return
		}
		j := in.concretize(p.idx, "elemptr-store", 64)
		assign(&p.base[j], v)
		return
	}
	panic(fmt.Sprintf("store through %T", p))
}

// assign stores v into the cell, updating structs and arrays in place so that
// previously taken field/element addresses stay valid (Go memory semantics).
func assign(dst *value, v value) {
	switch nv := v.(type) {
	case structure:
		if old, ok := (*dst).(structure); ok && len(old) == len(nv) {
			for i := range nv {
				assign(&old[i], nv[i])
			}
			return
		}
	case array:
		if old, ok := (*dst).(array); ok && len(old) == len(nv) {
			for i := range nv {
				assign(&old[i], nv[i])
			}
			return
		}
	}
	*dst = copyVal(v)
}

func (in *Interp) concPtr(p value) *value {
	switch p := p.(type) {
	case *value:
		return p
	case symElemPtr:
		j := in.concretize(p.idx, "elemptr", 64)
		return &p.base[j]
	}
	panic(fmt.Sprintf("concPtr of %T", p))
}

// boundsCheck forks on 0 <= idx < n and panics on the failing side.
func (in *Interp) boundsCheck(idx *Term, n int, what string) {
	ok := in.tt.ULt(in.widen(idx, true), in.tt.Const(64, uint64(n)))
	if !in.branch(ok, "bounds") {
		panic(runtimePanic{fmt.Sprintf("index out of range [%s] with length %d (%s)", in.show(idx), n, what)})
	}
}

// widen sign- or zero-extends to 64 bits.
func (in *Interp) widen(t *Term, signed bool) *Term {
	if t.w == 64 {
		return t
	}
	if signed {
		return in.tt.SExt(t, 64)
	}
	return in.tt.ZExt(t, 64)
}

func (in *Interp) idxTerm(v value, t types.Type) *Term {
	x := v.(*Term)
	_, signed, _ := isIntType(t)
	return in.widen(x, signed)
}

// ---------------------------------------------------------------- instructions

func (in *Interp) visitInstr(fr *frame, instr ssa.Instruction) continuation {
	switch instr := instr.(type) {
	case *ssa.DebugRef:

	case *ssa.UnOp:
		fr.env[instr] = in.unop(fr, instr, fr.get(instr.X))

	case *ssa.BinOp:
		fr.env[instr] = in.binop(instr.Op, instr.X.Type(), fr.get(instr.X), fr.get(instr.Y), instr.Y.Type())

	case *ssa.Call:
		fn, args := in.prepareCall(fr, &instr.Call)
		fr.env[instr] = in.call(fr, instr.Pos(), fn, args)

	case *ssa.ChangeInterface:
		fr.env[instr] = fr.get(instr.X)

	case *ssa.ChangeType:
		fr.env[instr] = fr.get(instr.X)

	case *ssa.Convert:
		fr.env[instr] = in.conv(fr, instr, instr.Type(), instr.X.Type(), fr.get(instr.X))

	case *ssa.SliceToArrayPointer:
		x := fr.get(instr.X).([]value)
		n := int(deref(instr.Type()).Underlying().(*types.Array).Len())
		if len(x) < n {
			panic(runtimePanic{fmt.Sprintf("cannot convert slice with length %d to array or pointer to array with length %d", len(x), n)})
		}
		if x == nil {
			fr.env[instr] = (*value)(nil)
		} else {
			var cell value = array(x[:n:n])
			fr.env[instr] = &cell
		}

	case *ssa.MakeInterface:
		fr.env[instr] = iface{t: instr.X.Type(), v: fr.get(instr.X)}

	case *ssa.Extract:
		fr.env[instr] = fr.get(instr.Tuple).(tuple)[instr.Index]

	case *ssa.Slice:
		fr.env[instr] = in.sliceOp(fr, instr)

	case *ssa.Return:
		switch len(instr.Results) {
		case 0:
		case 1:
			fr.result = fr.get(instr.Results[0])
		default:
			var res []value
			for _, r := range instr.Results {
				res = append(res, fr.get(r))
			}
			fr.result = tuple(res)
		}
		fr.block = nil
		return kReturn

	case *ssa.RunDefers:
		fr.runDefers()

	case *ssa.Panic:
		panic(targetPanic{fr.get(instr.X)})

	case *ssa.Send:
		in.chanSend(fr, fr.get(instr.Chan).(*chanV), fr.get(instr.X), instr.Pos())

	case *ssa.Store:
		in.storePtr(deref(instr.Addr.Type()), fr.get(instr.Addr), fr.get(instr.Val))

	case *ssa.If:
		succ := 1
		c := fr.get(instr.Cond).(*Term)
		if !c.IsConst() && in.tryIfConvert(fr, c) {
			return kJump
		}
		if in.branch(c, "if") {
			succ = 0
		}
		fr.prevBlock, fr.block = fr.block, fr.block.Succs[succ]
		return kJump

	case *ssa.Jump:
		fr.prevBlock, fr.block = fr.block, fr.block.Succs[0]
		return kJump

	case *ssa.Defer:
		fn, args := in.prepareCall(fr, &instr.Call)
		fr.defers = &deferred{fn: fn, args: args, instr: instr, tail: fr.defers}

	case *ssa.Go:
		fn, args := in.prepareCall(fr, &instr.Call)
		in.spawn(fr, fn, args, instr.Pos(), "")

	case *ssa.MakeChan:
		n := in.concretize(fr.get(instr.Size).(*Term), "makechan", 64)
		in.chanSeq++
		fr.env[instr] = &chanV{id: in.chanSeq, cap: int(n), et: instr.Type().Underlying().(*types.Chan).Elem()}

	case *ssa.Alloc:
		var addr *value
		if instr.Heap {
			addr = new(value)
			fr.env[instr] = addr
		} else {
			addr = fr.env[instr].(*value)
		}
		*addr = in.zero(deref(instr.Type()))

	case *ssa.MakeSlice:
		ln := in.makeLen(fr.get(instr.Len).(*Term), "makeslice: len out of range", instr.Pos(), fr)
		cp := ln
		if instr.Cap != instr.Len {
			cp = in.makeLen(fr.get(instr.Cap).(*Term), "makeslice: cap out of range", instr.Pos(), fr)
			if cp < ln {
				panic(runtimePanic{"makeslice: cap out of range"})
			}
		}
		s := make([]value, cp)
		tElt := instr.Type().Underlying().(*types.Slice).Elem()
		for i := range s {
			s[i] = in.zero(tElt)
		}
		fr.env[instr] = s[:ln]

	case *ssa.MakeMap:
		mt := instr.Type().Underlying().(*types.Map)
		fr.env[instr] = &mapV{kt: mt.Key(), vt: mt.Elem()}

	case *ssa.Range:
		fr.env[instr] = in.rangeIter(fr.get(instr.X), instr.X.Type())

	case *ssa.Next:
		fr.env[instr] = fr.get(instr.Iter).(iter).next(in)

	case *ssa.FieldAddr:
		p := in.concPtr(fr.get(instr.X))
		if p == nil {
			panic(runtimePanic{"invalid memory address or nil pointer dereference"})
		}
		fr.env[instr] = &(*p).(structure)[instr.Field]

	case *ssa.Field:
		fr.env[instr] = fr.get(instr.X).(structure)[instr.Field]

	case *ssa.IndexAddr:
		x := fr.get(instr.X)
		idx := in.idxTerm(fr.get(instr.Index), instr.Index.Type())
		var base []value
		switch x := x.(type) {
		case []value:
			base = x
		case *value:
			if x == nil {
				panic(runtimePanic{"invalid memory address or nil pointer dereference"})
			}
			base = (*x).(array)
		case symElemPtr:
			base = (*in.concPtr(x)).(array)
		default:
			panic(fmt.Sprintf("unexpected x type in IndexAddr: %T", x))
		}
		in.boundsCheck(idx, len(base), "IndexAddr")
		if idx.IsConst() {
			fr.env[instr] = &base[idx.val]
		} else {
			fr.env[instr] = symElemPtr{base: base, idx: idx}
		}

	case *ssa.Index:
		x := fr.get(instr.X)
		idx := in.idxTerm(fr.get(instr.Index), instr.Index.Type())
		switch x := x.(type) {
		case array:
			in.boundsCheck(idx, len(x), "Index")
			fr.env[instr] = in.loadPtr(nil, symElemPtr{base: x, idx: idx})
		case strV:
			in.boundsCheck(idx, len(x.b), "Index")
			if idx.IsConst() {
				fr.env[instr] = x.b[idx.val]
			} else {
				r := x.b[len(x.b)-1]
				for j := len(x.b) - 2; j >= 0; j-- {
					r = in.tt.Ite(in.tt.Eq(idx, in.tt.Const(64, uint64(j))), x.b[j], r)
				}
				fr.env[instr] = r
			}
		default:
			panic(fmt.Sprintf("unexpected x type in Index: %T", x))
		}

	case *ssa.Lookup:
		fr.env[instr] = in.lookup(instr, fr.get(instr.X), fr.get(instr.Index))

	case *ssa.MapUpdate:
		m := fr.get(instr.Map).(*mapV)
		if m == nil {
			panic(runtimePanic{"assignment to entry in nil map"})
		}
		in.raceWrite(&m.rc)
		in.mapInsert(m, fr.get(instr.Key), fr.get(instr.Value))

	case *ssa.TypeAssert:
		fr.env[instr] = in.typeAssert(instr, fr.get(instr.X).(iface))

	case *ssa.MakeClosure:
		var bindings []value
		for _, binding := range instr.Bindings {
			bindings = append(bindings, fr.get(binding))
		}
		fr.env[instr] = &closure{instr.Fn.(*ssa.Function), bindings}

	case *ssa.Select:
		fr.env[instr] = in.selectOp(fr, instr)

	default:
		panic(fmt.Sprintf("unexpected instruction: %T", instr))
	}
	return kNext
}

// makeLen checks a symbolic allocation length and concretizes it.
func (in *Interp) makeLen(n *Term, msg string, pos token.Pos, fr *frame) int64 {
	if n.IsConst() {
		v := n.sval()
		if v < 0 || v > 1<<40 {
			panic(runtimePanic{msg})
		}
		return v
	}
	n = in.widen(n, true)
	lim := in.allocLimit
	if lim <= 0 {
		lim = 64
	}
	// negative (or absurd) length: runtime panic
	if !in.branch(in.tt.SLe(in.tt.Const(64, 0), n), "makelen>=0") {
		panic(runtimePanic{msg})
	}
	if !in.branch(in.tt.SLe(n, in.tt.Const(64, uint64(lim))), "makelen<=limit") {
		if in.allocCut {
			in.h.AllocCuts++
			panic(pathEnd{"allocation above the stated bound (outside the claim)"})
		}
		// an allocation whose size the input controls beyond the declared limit
		in.reportViolation(fr, "alloc-limit", "alloc", fmt.Sprintf("allocation at %s with input-controlled length above the declared limit %d", in.where(fr, pos), lim), nil)
		panic(pathEnd{"allocation above limit"})
	}
	return in.concretize(n, "makelen", int(lim)+1)
}

func (in *Interp) sliceOp(fr *frame, instr *ssa.Slice) value {
	x := fr.get(instr.X)
	var lo, hi, max *Term
	if instr.Low != nil {
		lo = in.idxTerm(fr.get(instr.Low), instr.Low.Type())
	}
	if instr.High != nil {
		hi = in.idxTerm(fr.get(instr.High), instr.High.Type())
	}
	if instr.Max != nil {
		max = in.idxTerm(fr.get(instr.Max), instr.Max.Type())
	}
	var Len, Cap int
	var base []value
	var str *strV
	switch x := x.(type) {
	case strV:
		Len, Cap = len(x.b), len(x.b)
		str = &x
	case []value:
		Len, Cap = len(x), cap(x)
		base = x
	case *value:
		if x == nil {
			panic(runtimePanic{"invalid memory address or nil pointer dereference"})
		}
		a := (*x).(array)
		Len, Cap = len(a), len(a)
		base = a
	default:
		panic(fmt.Sprintf("slice of %T", x))
	}
	tt := in.tt
	c64 := func(v int) *Term { return tt.Const(64, uint64(v)) }
	if lo == nil {
		lo = c64(0)
	}
	if hi == nil {
		hi = c64(Len)
	}
	upper := Cap
	if str != nil {
		upper = Len
	}
	if max == nil {
		max = c64(Cap)
	} else {
		if !in.branch(tt.ULe(max, c64(Cap)), "slice-max") {
			panic(runtimePanic{fmt.Sprintf("slice bounds out of range [::%s] with capacity %d", in.show(max), Cap)})
		}
	}
	// 0 <= lo <= hi <= max(<=cap)
	if !in.branch(tt.ULe(hi, tt.Ite(tt.ULe(max, c64(upper)), max, c64(upper))), "slice-hi") {
		panic(runtimePanic{fmt.Sprintf("slice bounds out of range [:%s] with capacity %d", in.show(hi), upper)})
	}
	if !in.branch(tt.ULe(lo, hi), "slice-lo") {
		panic(runtimePanic{fmt.Sprintf("slice bounds out of range [%s:%s]", in.show(lo), in.show(hi))})
	}
	l := int(in.concretize(lo, "slice-lo", 4096))
	h := int(in.concretize(hi, "slice-hi", 4096))
	m := int(in.concretize(max, "slice-max", 4096))
	if str != nil {
		return strV{str.b[l:h]}
	}
	if base == nil {
		return []value(nil)
	}
	return base[l:h:m]
}

func (in *Interp) typeAssert(instr *ssa.TypeAssert, itf iface) value {
	var v value
	err := ""
	if itf.t == nil {
		err = fmt.Sprintf("interface conversion: interface is nil, not %s", instr.AssertedType)
	} else if idst, ok := instr.AssertedType.Underlying().(*types.Interface); ok {
		v = itf
		if meth, _ := types.MissingMethod(itf.t, idst, true); meth != nil {
			err = fmt.Sprintf("interface conversion: %v is not %v: missing method %s", itf.t, idst, meth.Name())
		}
	} else if types.Identical(itf.t, instr.AssertedType) {
		v = itf.v
	} else {
		err = fmt.Sprintf("interface conversion: interface is %s, not %s", itf.t, instr.AssertedType)
	}
	if err != "" {
		if !instr.CommaOk {
			panic(runtimePanic{err})
		}
		return tuple{in.zero(instr.AssertedType), in.tt.False}
	}
	if instr.CommaOk {
		return tuple{v, in.tt.True}
	}
	return v
}

func (in *Interp) constValue(c *ssa.Const) value {
	if c.Value == nil {
		return in.zero(c.Type())
	}
	t := c.Type()
	if w, signed, ok := isIntType(t); ok {
		if signed {
			return in.tt.Const(w, uint64(c.Int64()))
		}
		return in.tt.Const(w, c.Uint64())
	}
	if b, ok := t.Underlying().(*types.Basic); ok {
		switch {
		case b.Info()&types.IsBoolean != 0:
			return in.tt.Bool(constBool(c))
		case b.Info()&types.IsFloat != 0:
			return c.Float64()
		case b.Info()&types.IsString != 0:
			return in.mkStr(constString(c))
		case b.Info()&types.IsComplex != 0:
			return c.Complex128()
		}
	}
	panic(fmt.Sprintf("constValue: %s", c))
}
