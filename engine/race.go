package main

// Happens-before data-race monitor (opt-in per harness: verifrt.RaceCheck()).
//
// The scheduler interleaves threads at synchronisation operations only, which is sound for
// data-race-free code. This monitor checks that assumption on every explored path and turns a
// violation into a finding: every thread carries a vector clock; mutexes, RW-mutexes, atomics
// (per address), channels, Once, WaitGroup, goroutine creation and thread exit / Join / Rest
// carry the usual release -> acquire edges (over-approximated where cheap: a channel is one
// clock, Join/Rest is a barrier), and every load / store through a heap cell is compared with the
// last write and the reads since (FastTrack style). Two accesses to the same cell, at least one
// a write, with no happens-before path between them = data race: under the Go memory model the
// program then has no defined meaning, and in particular "check-then-act" on that cell is not
// atomic. Over-approximating happens-before can hide a race but never invents one.

import (
	"fmt"
	"go/token"
	"sort"
)

type vclock []int

func (a vclock) get(i int) int {
	if i < len(a) {
		return a[i]
	}
	return 0
}

func (a *vclock) set(i, v int) {
	for len(*a) <= i {
		*a = append(*a, 0)
	}
	(*a)[i] = v
}

func (a *vclock) join(b vclock) {
	for i, v := range b {
		if v > a.get(i) {
			a.set(i, v)
		}
	}
}

type raceAccess struct {
	tid, clk int
	pos      token.Pos
	fn       string
}

type raceCell struct {
	w     raceAccess
	hasW  bool
	reads []raceAccess
}

type raceState struct {
	on     bool
	cells  map[*value]*raceCell
	atomic map[*value]bool
	objs   map[interface{}]*vclock
	found  map[string]bool
}

func (in *Interp) raceReset() {
	in.race = raceState{cells: map[*value]*raceCell{}, atomic: map[*value]bool{}, objs: map[interface{}]*vclock{}, found: map[string]bool{}}
}

func (in *Interp) raceTick(t *thread) {
	t.vc.set(t.id, t.vc.get(t.id)+1)
}

// release: the current thread publishes its history into obj
func (in *Interp) hbRelease(obj interface{}) {
	if !in.race.on || in.cur == nil {
		return
	}
	o := in.race.objs[obj]
	if o == nil {
		o = &vclock{}
		in.race.objs[obj] = o
	}
	o.join(in.cur.vc)
	in.raceTick(in.cur)
}

// acquire: the current thread learns what was published into obj
func (in *Interp) hbAcquire(obj interface{}) {
	if !in.race.on || in.cur == nil {
		return
	}
	if o := in.race.objs[obj]; o != nil {
		in.cur.vc.join(*o)
	}
}

func (in *Interp) hbBoth(obj interface{}) {
	in.hbAcquire(obj)
	in.hbRelease(obj)
}

// barrier: every live thread knows everything (Join / Rest: the harness looks at quiescent state)
func (in *Interp) hbBarrier() {
	if !in.race.on {
		return
	}
	var all vclock
	for _, t := range in.threads {
		all.join(t.vc)
	}
	for _, t := range in.threads {
		t.vc.join(all)
		in.raceTick(t)
	}
}

func (in *Interp) hbSpawn(parent, child *thread) {
	if parent != nil {
		child.vc = append(vclock{}, parent.vc...)
		if in.race.on {
			in.raceTick(parent)
		}
	}
	child.vc.set(child.id, 1)
}

func (in *Interp) raceFnName() (string, token.Pos) {
	if in.curFrame != nil && in.curFrame.fn != nil {
		return in.curFrame.fn.String(), in.curPos
	}
	return "?", in.curPos
}

func (in *Interp) raceRead(p *value) {
	if !in.race.on || in.cur == nil || len(in.threads) < 2 || in.race.atomic[p] {
		return
	}
	t := in.cur
	c := in.race.cells[p]
	if c == nil {
		c = &raceCell{}
		in.race.cells[p] = c
	}
	fn, pos := in.raceFnName()
	if c.hasW && c.w.tid != t.id && c.w.clk > t.vc.get(c.w.tid) {
		in.raceReport(c.w, raceAccess{t.id, 0, pos, fn}, "write", "read")
	}
	for i := range c.reads {
		if c.reads[i].tid == t.id {
			c.reads[i] = raceAccess{t.id, t.vc.get(t.id), pos, fn}
			return
		}
	}
	c.reads = append(c.reads, raceAccess{t.id, t.vc.get(t.id), pos, fn})
}

func (in *Interp) raceWrite(p *value) {
	if !in.race.on || in.cur == nil || len(in.threads) < 2 || in.race.atomic[p] {
		return
	}
	t := in.cur
	c := in.race.cells[p]
	if c == nil {
		c = &raceCell{}
		in.race.cells[p] = c
	}
	fn, pos := in.raceFnName()
	me := raceAccess{t.id, t.vc.get(t.id), pos, fn}
	if c.hasW && c.w.tid != t.id && c.w.clk > t.vc.get(c.w.tid) {
		in.raceReport(c.w, me, "write", "write")
	}
	for _, r := range c.reads {
		if r.tid != t.id && r.clk > t.vc.get(r.tid) {
			in.raceReport(r, me, "read", "write")
		}
	}
	c.w, c.hasW = me, true
	c.reads = c.reads[:0]
}

func (in *Interp) raceReport(a, b raceAccess, ka, kb string) {
	wa, wb := in.where(nil, a.pos), in.where(nil, b.pos)
	ends := []string{ka + "@" + wa, kb + "@" + wb}
	sort.Strings(ends)
	label := "data-race:" + ends[0] + "|" + ends[1]
	if in.race.found[label] {
		return
	}
	in.race.found[label] = true
	detail := fmt.Sprintf("unsynchronised %s at %s (%s, thread %s) and %s at %s (%s, thread %s) of the same memory cell: no happens-before edge orders them",
		ka, wa, a.fn, in.threads[a.tid].name, kb, wb, b.fn, in.threads[b.tid].name)
	in.reportViolation(in.curFrame, label, "race", detail, nil)
}
