package main

// If-conversion of side-effect-free regions: when a symbolic If opens a small acyclic
// region of pure blocks that re-joins at its immediate post-dominator, every path of the
// region is executed speculatively and the join's phis become ite terms; no fork.

import (
	"go/token"

	"golang.org/x/tools/go/ssa"
)

type specAbort struct{}

type specRegion struct {
	join *ssa.BasicBlock
	ok   bool
}

type fnInfo struct {
	ipdom map[*ssa.BasicBlock]*ssa.BasicBlock
	pure  map[*ssa.BasicBlock]bool
	reg   map[*ssa.BasicBlock]*specRegion
}

func (in *Interp) info(fn *ssa.Function) *fnInfo {
	in.fnInfoMu.Lock()
	defer in.fnInfoMu.Unlock()
	if fi, ok := in.fnInfos[fn]; ok {
		return fi
	}
	fi := &fnInfo{ipdom: postDominators(fn), pure: map[*ssa.BasicBlock]bool{}, reg: map[*ssa.BasicBlock]*specRegion{}}
	for _, b := range fn.Blocks {
		fi.pure[b] = blockPure(b)
	}
	in.fnInfos[fn] = fi
	return fi
}

// postDominators computes immediate post-dominators with the iterative set algorithm
// (functions are small). Blocks without successors post-dominate only themselves.
func postDominators(fn *ssa.Function) map[*ssa.BasicBlock]*ssa.BasicBlock {
	n := len(fn.Blocks)
	// pdom sets as bitsets over block indices
	type set []uint64
	words := (n + 63) / 64
	full := make(set, words)
	for i := 0; i < n; i++ {
		full[i/64] |= 1 << uint(i%64)
	}
	pd := make([]set, n)
	for i, b := range fn.Blocks {
		pd[i] = make(set, words)
		if len(b.Succs) == 0 {
			pd[i][i/64] |= 1 << uint(i%64)
		} else {
			copy(pd[i], full)
		}
	}
	changed := true
	for changed {
		changed = false
		for i := n - 1; i >= 0; i-- {
			b := fn.Blocks[i]
			if len(b.Succs) == 0 {
				continue
			}
			nw := make(set, words)
			copy(nw, full)
			for _, s := range b.Succs {
				for w := range nw {
					nw[w] &= pd[s.Index][w]
				}
			}
			nw[i/64] |= 1 << uint(i%64)
			for w := range nw {
				if nw[w] != pd[i][w] {
					changed = true
				}
			}
			pd[i] = nw
		}
	}
	count := func(s set) int {
		c := 0
		for _, w := range s {
			for ; w != 0; w &= w - 1 {
				c++
			}
		}
		return c
	}
	res := map[*ssa.BasicBlock]*ssa.BasicBlock{}
	for i, b := range fn.Blocks {
		// immediate post-dominator: the strict post-dominator with the largest pdom set
		var best *ssa.BasicBlock
		bestN := -1
		for j := 0; j < n; j++ {
			if j == i || pd[i][j/64]&(1<<uint(j%64)) == 0 {
				continue
			}
			if c := count(pd[j]); c > bestN {
				bestN = c
				best = fn.Blocks[j]
			}
		}
		res[b] = best
	}
	return res
}

func instrPure(instr ssa.Instruction) bool {
	switch x := instr.(type) {
	case *ssa.BinOp:
		if x.Op == token.QUO || x.Op == token.REM {
			if c, ok := x.Y.(*ssa.Const); ok && c.Value != nil && c.Uint64() != 0 {
				return true
			}
			return false
		}
		return true
	case *ssa.UnOp:
		return x.Op != token.ARROW
	case *ssa.Convert, *ssa.ChangeType, *ssa.ChangeInterface, *ssa.MakeInterface, *ssa.Extract, *ssa.Field,
		*ssa.FieldAddr, *ssa.IndexAddr, *ssa.Index, *ssa.Phi, *ssa.DebugRef, *ssa.Slice:
		return true
	case *ssa.Lookup:
		return true
	case *ssa.TypeAssert:
		return x.CommaOk
	case *ssa.Call:
		if b, ok := x.Call.Value.(*ssa.Builtin); ok {
			switch b.Name() {
			case "len", "cap", "min", "max":
				return true
			}
		}
		return false
	case *ssa.If, *ssa.Jump:
		return true
	}
	return false
}

func blockPure(b *ssa.BasicBlock) bool {
	for _, i := range b.Instrs {
		if !instrPure(i) {
			return false
		}
	}
	return true
}

// region decides (statically, cached) whether the If ending block b opens a convertible region.
func (fi *fnInfo) region(b *ssa.BasicBlock) *specRegion {
	if r, ok := fi.reg[b]; ok {
		return r
	}
	r := &specRegion{}
	fi.reg[b] = r
	j := fi.ipdom[b]
	if j == nil {
		return r
	}
	// every block reachable from b's successors before j must be pure; bounded size; acyclic
	seen := map[*ssa.BasicBlock]bool{}
	onstack := map[*ssa.BasicBlock]bool{}
	okAll := true
	var visit func(x *ssa.BasicBlock)
	visit = func(x *ssa.BasicBlock) {
		if x == j || !okAll {
			return
		}
		if onstack[x] {
			okAll = false
			return
		}
		if seen[x] {
			return
		}
		seen[x] = true
		if !fi.pure[x] || len(seen) > 12 || len(x.Succs) == 0 {
			okAll = false
			return
		}
		onstack[x] = true
		for _, s := range x.Succs {
			visit(s)
		}
		onstack[x] = false
	}
	for _, s := range b.Succs {
		visit(s)
	}
	if okAll {
		r.join = j
		r.ok = true
	}
	return r
}

type specPath struct {
	cond *Term
	pred *ssa.BasicBlock
	vals []value // incoming phi values at the join
}

// tryIfConvert attempts to execute the region after a symbolic If without forking.
// On success the frame is positioned at the join block with its phis assigned.
func (in *Interp) tryIfConvert(fr *frame, cond *Term) bool {
	if in.noIfConv || in.spec > 0 {
		return false
	}
	fi := in.info(fr.fn)
	reg := fi.region(fr.block)
	if !reg.ok {
		return false
	}
	join := reg.join
	var phis []*ssa.Phi
	for _, i := range join.Instrs {
		if p, ok := i.(*ssa.Phi); ok {
			phis = append(phis, p)
		} else {
			break
		}
	}
	var paths []specPath
	aborted := false
	ifBlock := fr.block
	savedPrev := fr.prevBlock
	in.spec++
	stepsBefore := in.steps
	var added []ssa.Value
	var walk func(b, prev *ssa.BasicBlock, pc *Term, depth int)
	walk = func(b, prev *ssa.BasicBlock, pc *Term, depth int) {
		if aborted {
			return
		}
		if len(paths) > 32 || depth > 14 {
			aborted = true
			return
		}
		if b == join {
			predIndex := -1
			for i, p := range join.Preds {
				if p == prev {
					predIndex = i
				}
			}
			sp := specPath{cond: pc, pred: prev}
			for _, p := range phis {
				sp.vals = append(sp.vals, fr.get(p.Edges[predIndex]))
			}
			paths = append(paths, sp)
			return
		}
		mark := len(added)
		// phis of b
		fr.block, fr.prevBlock = b, prev
		nonPhis := in.executePhisSpec(fr, &added)
		var term ssa.Instruction
		for _, instr := range nonPhis {
			switch instr.(type) {
			case *ssa.If, *ssa.Jump:
				term = instr
				continue
			}
			in.steps++
			if v, ok := instr.(ssa.Value); ok {
				added = append(added, v)
			}
			in.visitInstr(fr, instr)
		}
		switch t := term.(type) {
		case *ssa.Jump:
			walk(b.Succs[0], b, pc, depth+1)
		case *ssa.If:
			c := fr.get(t.Cond).(*Term)
			if c.IsConst() {
				if c.val != 0 {
					walk(b.Succs[0], b, pc, depth+1)
				} else {
					walk(b.Succs[1], b, pc, depth+1)
				}
			} else {
				walk(b.Succs[0], b, in.tt.And(pc, c), depth+1)
				// re-establish this block's values for the other side (they are still in env)
				walk(b.Succs[1], b, in.tt.And(pc, in.tt.Not(c)), depth+1)
			}
		default:
			aborted = true
		}
		// undo values defined by this block
		for _, v := range added[mark:] {
			delete(fr.env, v)
		}
		added = added[:mark]
	}
	func() {
		defer func() {
			if r := recover(); r != nil {
				switch r.(type) {
				case specAbort, runtimePanic, targetPanic:
					aborted = true
				default:
					panic(r)
				}
			}
		}()
		walk(ifBlock.Succs[0], ifBlock, cond, 0)
		walk(ifBlock.Succs[1], ifBlock, in.tt.Not(cond), 0)
	}()
	in.spec--
	for _, v := range added {
		delete(fr.env, v)
	}
	fr.block, fr.prevBlock = ifBlock, savedPrev
	if aborted || len(paths) == 0 {
		in.steps = stepsBefore
		return false
	}
	// merge
	merged := make([]value, len(phis))
	for k := range phis {
		m, ok := in.mergeVals(paths, k)
		if !ok {
			in.steps = stepsBefore
			return false
		}
		merged[k] = m
	}
	for k, p := range phis {
		fr.env[p] = merged[k]
	}
	fr.prevBlock, fr.block = paths[0].pred, join
	fr.skipPhis = true
	in.h.IfConverted++
	return true
}

func (in *Interp) mergeVals(paths []specPath, k int) (value, bool) {
	last := paths[len(paths)-1].vals[k]
	switch lv := last.(type) {
	case *Term:
		r := lv
		for i := len(paths) - 2; i >= 0; i-- {
			t, ok := paths[i].vals[k].(*Term)
			if !ok || t.w != r.w {
				return nil, false
			}
			r = in.tt.Ite(paths[i].cond, t, r)
		}
		return r, true
	case strV:
		r := make([]*Term, len(lv.b))
		copy(r, lv.b)
		for i := len(paths) - 2; i >= 0; i-- {
			s, ok := paths[i].vals[k].(strV)
			if !ok || len(s.b) != len(r) {
				return nil, false
			}
			for j := range r {
				r[j] = in.tt.Ite(paths[i].cond, s.b[j], r[j])
			}
		}
		return strV{r}, true
	case *value:
		for i := range paths {
			p, ok := paths[i].vals[k].(*value)
			if !ok || p != lv {
				return nil, false
			}
		}
		return lv, true
	}
	return nil, false
}

func (in *Interp) executePhisSpec(fr *frame, added *[]ssa.Value) []ssa.Instruction {
	firstNonPhi := -1
	for i, instr := range fr.block.Instrs {
		if _, ok := instr.(*ssa.Phi); !ok {
			firstNonPhi = i
			break
		}
	}
	nonPhis := fr.block.Instrs[firstNonPhi:]
	if firstNonPhi > 0 {
		phis := fr.block.Instrs[:firstNonPhi]
		predIndex := -1
		for i, p := range fr.block.Preds {
			if p == fr.prevBlock {
				predIndex = i
			}
		}
		tmp := make([]value, len(phis))
		for i, phi := range phis {
			tmp[i] = fr.get(phi.(*ssa.Phi).Edges[predIndex])
		}
		for i, phi := range phis {
			fr.env[phi.(*ssa.Phi)] = tmp[i]
			*added = append(*added, phi.(*ssa.Phi))
		}
	}
	return nonPhis
}
