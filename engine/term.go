package main

// Hash-consed SMT terms over Bool and (_ BitVec w) with constant folding.

import (
	"fmt"
	"math/bits"
	"strings"
)

type Op uint8

const (
	OpConst Op = iota
	OpVar
	OpNot // bool
	OpAnd
	OpOr
	OpEq
	OpIte
	OpAdd
	OpSub
	OpMul
	OpUDiv
	OpURem
	OpSDiv
	OpSRem
	OpBAnd
	OpBOr
	OpBXor
	OpBNot
	OpNeg
	OpShl
	OpLShr
	OpAShr
	OpULt
	OpULe
	OpSLt
	OpSLe
	OpExtract
	OpZExt
	OpSExt
	OpConcat
	OpUF // uninterpreted function application: name + args
)

var opNames = map[Op]string{
	OpNot: "not", OpAnd: "and", OpOr: "or", OpEq: "=", OpIte: "ite",
	OpAdd: "bvadd", OpSub: "bvsub", OpMul: "bvmul", OpUDiv: "bvudiv", OpURem: "bvurem",
	OpSDiv: "bvsdiv", OpSRem: "bvsrem", OpBAnd: "bvand", OpBOr: "bvor", OpBXor: "bvxor",
	OpBNot: "bvnot", OpNeg: "bvneg", OpShl: "bvshl", OpLShr: "bvlshr", OpAShr: "bvashr",
	OpULt: "bvult", OpULe: "bvule", OpSLt: "bvslt", OpSLe: "bvsle", OpConcat: "concat",
}

// Term is an immutable hash-consed term. w==0 means Bool.
type Term struct {
	id   int
	op   Op
	w    int
	args []*Term
	val  uint64 // OpConst (w<=64, or zero-extended for wider); bool: 0/1
	name string // OpVar / OpUF
	hi   int    // OpExtract hi, OpZExt/OpSExt extra bits
	lo   int
}

type TermTable struct {
	tab   map[string]*Term
	terms []*Term
	True  *Term
	False *Term
	bytes [256]*Term
}

func NewTermTable() *TermTable {
	tt := &TermTable{tab: map[string]*Term{}}
	tt.False = tt.mk(&Term{op: OpConst, w: 0, val: 0})
	tt.True = tt.mk(&Term{op: OpConst, w: 0, val: 1})
	for i := 0; i < 256; i++ {
		tt.bytes[i] = tt.Const(8, uint64(i))
	}
	return tt
}

func (tt *TermTable) key(t *Term) string {
	var sb strings.Builder
	fmt.Fprintf(&sb, "%d/%d/%d/%d/%d/%s", t.op, t.w, t.val, t.hi, t.lo, t.name)
	for _, a := range t.args {
		fmt.Fprintf(&sb, ",%d", a.id)
	}
	return sb.String()
}

func (tt *TermTable) mk(t *Term) *Term {
	k := tt.key(t)
	if e, ok := tt.tab[k]; ok {
		return e
	}
	t.id = len(tt.terms)
	tt.terms = append(tt.terms, t)
	tt.tab[k] = t
	return t
}

func mask(w int) uint64 {
	if w >= 64 {
		return ^uint64(0)
	}
	return (uint64(1) << uint(w)) - 1
}

func (t *Term) IsConst() bool { return t.op == OpConst }
func (t *Term) IsBool() bool  { return t.w == 0 }

// sval returns the constant as a sign-extended int64 (w<=64).
func (t *Term) sval() int64 {
	if t.w >= 64 {
		return int64(t.val)
	}
	sh := uint(64 - t.w)
	return int64(t.val<<sh) >> sh
}

func (tt *TermTable) Const(w int, v uint64) *Term {
	if w == 0 {
		if v != 0 {
			return tt.True
		}
		return tt.False
	}
	if w <= 64 {
		v &= mask(w)
	}
	return tt.mk(&Term{op: OpConst, w: w, val: v})
}

func (tt *TermTable) Bool(b bool) *Term {
	if b {
		return tt.True
	}
	return tt.False
}

func (tt *TermTable) Var(name string, w int) *Term {
	return tt.mk(&Term{op: OpVar, w: w, name: name})
}

func (tt *TermTable) UF(name string, w int, args ...*Term) *Term {
	return tt.mk(&Term{op: OpUF, w: w, name: name, args: args})
}

func (tt *TermTable) Not(a *Term) *Term {
	if a.w != 0 {
		panic("Not on non-bool")
	}
	if a.IsConst() {
		return tt.Bool(a.val == 0)
	}
	if a.op == OpNot {
		return a.args[0]
	}
	return tt.mk(&Term{op: OpNot, args: []*Term{a}})
}

func (tt *TermTable) And(a, b *Term) *Term {
	if a.IsConst() {
		if a.val == 0 {
			return tt.False
		}
		return b
	}
	if b.IsConst() {
		if b.val == 0 {
			return tt.False
		}
		return a
	}
	if a == b {
		return a
	}
	if a.id > b.id {
		a, b = b, a
	}
	return tt.mk(&Term{op: OpAnd, args: []*Term{a, b}})
}

func (tt *TermTable) Or(a, b *Term) *Term {
	if a.IsConst() {
		if a.val != 0 {
			return tt.True
		}
		return b
	}
	if b.IsConst() {
		if b.val != 0 {
			return tt.True
		}
		return a
	}
	if a == b {
		return a
	}
	if a.id > b.id {
		a, b = b, a
	}
	return tt.mk(&Term{op: OpOr, args: []*Term{a, b}})
}

func (tt *TermTable) AndN(ts ...*Term) *Term {
	r := tt.True
	for _, t := range ts {
		r = tt.And(r, t)
	}
	return r
}

func (tt *TermTable) Implies(a, b *Term) *Term { return tt.Or(tt.Not(a), b) }

func (tt *TermTable) Eq(a, b *Term) *Term {
	if a.w != b.w {
		panic(fmt.Sprintf("Eq width mismatch %d vs %d", a.w, b.w))
	}
	if a == b {
		return tt.True
	}
	if a.IsConst() && b.IsConst() {
		return tt.Bool(a.val == b.val)
	}
	if a.w == 0 {
		if a.IsConst() {
			if a.val != 0 {
				return b
			}
			return tt.Not(b)
		}
		if b.IsConst() {
			if b.val != 0 {
				return a
			}
			return tt.Not(a)
		}
	}
	if a.id > b.id {
		a, b = b, a
	}
	return tt.mk(&Term{op: OpEq, args: []*Term{a, b}})
}

func (tt *TermTable) Ite(c, a, b *Term) *Term {
	if c.IsConst() {
		if c.val != 0 {
			return a
		}
		return b
	}
	if a == b {
		return a
	}
	if a.w != b.w {
		panic("Ite width mismatch")
	}
	if a.w == 0 {
		if a.IsConst() && b.IsConst() {
			if a.val != 0 {
				return c
			}
			return tt.Not(c)
		}
	}
	return tt.mk(&Term{op: OpIte, w: a.w, args: []*Term{c, a, b}})
}

func (tt *TermTable) bin(op Op, a, b *Term) *Term {
	if a.w != b.w || a.w == 0 {
		panic(fmt.Sprintf("binop %v width mismatch %d vs %d", opNames[op], a.w, b.w))
	}
	w := a.w
	if a.IsConst() && b.IsConst() && w <= 64 {
		x, y := a.val, b.val
		m := mask(w)
		switch op {
		case OpAdd:
			return tt.Const(w, x+y)
		case OpSub:
			return tt.Const(w, x-y)
		case OpMul:
			return tt.Const(w, x*y)
		case OpUDiv:
			if y == 0 {
				return tt.Const(w, m)
			}
			return tt.Const(w, x/y)
		case OpURem:
			if y == 0 {
				return tt.Const(w, x)
			}
			return tt.Const(w, x%y)
		case OpSDiv:
			sx, sy := a.sval(), b.sval()
			if sy == 0 {
				if sx < 0 {
					return tt.Const(w, 1)
				}
				return tt.Const(w, m)
			}
			if sy == -1 {
				return tt.Const(w, uint64(-sx))
			}
			return tt.Const(w, uint64(sx/sy))
		case OpSRem:
			sx, sy := a.sval(), b.sval()
			if sy == 0 {
				return tt.Const(w, x)
			}
			if sy == -1 {
				return tt.Const(w, 0)
			}
			return tt.Const(w, uint64(sx%sy))
		case OpBAnd:
			return tt.Const(w, x&y)
		case OpBOr:
			return tt.Const(w, x|y)
		case OpBXor:
			return tt.Const(w, x^y)
		case OpShl:
			if y >= uint64(w) {
				return tt.Const(w, 0)
			}
			return tt.Const(w, x<<y)
		case OpLShr:
			if y >= uint64(w) {
				return tt.Const(w, 0)
			}
			return tt.Const(w, x>>y)
		case OpAShr:
			sx := a.sval()
			if y >= uint64(w) {
				y = uint64(w - 1)
			}
			return tt.Const(w, uint64(sx>>y))
		}
	}
	// identities
	switch op {
	case OpAdd, OpBOr, OpBXor:
		if a.IsConst() && a.val == 0 && w <= 64 {
			return b
		}
		if b.IsConst() && b.val == 0 && w <= 64 {
			return a
		}
	case OpSub, OpShl, OpLShr, OpAShr:
		if b.IsConst() && b.val == 0 && w <= 64 {
			return a
		}
	case OpMul:
		if a.IsConst() && w <= 64 {
			if a.val == 1 {
				return b
			}
			if a.val == 0 {
				return a
			}
		}
		if b.IsConst() && w <= 64 {
			if b.val == 1 {
				return a
			}
			if b.val == 0 {
				return b
			}
		}
	case OpBAnd:
		if a.IsConst() && w <= 64 {
			if a.val == 0 {
				return a
			}
			if a.val == mask(w) {
				return b
			}
		}
		if b.IsConst() && w <= 64 {
			if b.val == 0 {
				return b
			}
			if b.val == mask(w) {
				return a
			}
		}
	}
	switch op {
	case OpAdd, OpMul, OpBAnd, OpBOr, OpBXor:
		if a.id > b.id {
			a, b = b, a
		}
	}
	return tt.mk(&Term{op: op, w: w, args: []*Term{a, b}})
}

func (tt *TermTable) Add(a, b *Term) *Term  { return tt.bin(OpAdd, a, b) }
func (tt *TermTable) Sub(a, b *Term) *Term  { return tt.bin(OpSub, a, b) }
func (tt *TermTable) Mul(a, b *Term) *Term  { return tt.bin(OpMul, a, b) }
func (tt *TermTable) UDiv(a, b *Term) *Term { return tt.bin(OpUDiv, a, b) }
func (tt *TermTable) URem(a, b *Term) *Term { return tt.bin(OpURem, a, b) }
func (tt *TermTable) SDiv(a, b *Term) *Term { return tt.bin(OpSDiv, a, b) }
func (tt *TermTable) SRem(a, b *Term) *Term { return tt.bin(OpSRem, a, b) }
func (tt *TermTable) BAnd(a, b *Term) *Term { return tt.bin(OpBAnd, a, b) }
func (tt *TermTable) BOr(a, b *Term) *Term  { return tt.bin(OpBOr, a, b) }
func (tt *TermTable) BXor(a, b *Term) *Term { return tt.bin(OpBXor, a, b) }
func (tt *TermTable) Shl(a, b *Term) *Term  { return tt.bin(OpShl, a, b) }
func (tt *TermTable) LShr(a, b *Term) *Term { return tt.bin(OpLShr, a, b) }
func (tt *TermTable) AShr(a, b *Term) *Term { return tt.bin(OpAShr, a, b) }

func (tt *TermTable) BNot(a *Term) *Term {
	if a.IsConst() && a.w <= 64 {
		return tt.Const(a.w, ^a.val)
	}
	return tt.mk(&Term{op: OpBNot, w: a.w, args: []*Term{a}})
}

func (tt *TermTable) Neg(a *Term) *Term {
	if a.IsConst() && a.w <= 64 {
		return tt.Const(a.w, -a.val)
	}
	return tt.mk(&Term{op: OpNeg, w: a.w, args: []*Term{a}})
}

func (tt *TermTable) cmp(op Op, a, b *Term) *Term {
	if a.w != b.w || a.w == 0 {
		panic(fmt.Sprintf("cmp width mismatch %d vs %d", a.w, b.w))
	}
	if a.IsConst() && b.IsConst() && a.w <= 64 {
		switch op {
		case OpULt:
			return tt.Bool(a.val < b.val)
		case OpULe:
			return tt.Bool(a.val <= b.val)
		case OpSLt:
			return tt.Bool(a.sval() < b.sval())
		case OpSLe:
			return tt.Bool(a.sval() <= b.sval())
		}
	}
	if a == b {
		return tt.Bool(op == OpULe || op == OpSLe)
	}
	return tt.mk(&Term{op: op, w: 0, args: []*Term{a, b}})
}

func (tt *TermTable) ULt(a, b *Term) *Term { return tt.cmp(OpULt, a, b) }
func (tt *TermTable) ULe(a, b *Term) *Term { return tt.cmp(OpULe, a, b) }
func (tt *TermTable) SLt(a, b *Term) *Term { return tt.cmp(OpSLt, a, b) }
func (tt *TermTable) SLe(a, b *Term) *Term { return tt.cmp(OpSLe, a, b) }

func (tt *TermTable) Extract(a *Term, hi, lo int) *Term {
	if lo == 0 && hi == a.w-1 {
		return a
	}
	w := hi - lo + 1
	if a.IsConst() && a.w <= 64 {
		return tt.Const(w, a.val>>uint(lo))
	}
	// extract of zext/sext below the original width
	if (a.op == OpZExt || a.op == OpSExt) && hi < a.args[0].w {
		return tt.Extract(a.args[0], hi, lo)
	}
	if a.op == OpConcat {
		lw := a.args[1].w
		if hi < lw {
			return tt.Extract(a.args[1], hi, lo)
		}
		if lo >= lw {
			return tt.Extract(a.args[0], hi-lw, lo-lw)
		}
	}
	return tt.mk(&Term{op: OpExtract, w: w, args: []*Term{a}, hi: hi, lo: lo})
}

func (tt *TermTable) ZExt(a *Term, w int) *Term {
	if w == a.w {
		return a
	}
	if w < a.w {
		return tt.Extract(a, w-1, 0)
	}
	if a.IsConst() && a.w <= 64 {
		return tt.Const(w, a.val)
	}
	return tt.mk(&Term{op: OpZExt, w: w, args: []*Term{a}, hi: w - a.w})
}

func (tt *TermTable) SExt(a *Term, w int) *Term {
	if w == a.w {
		return a
	}
	if w < a.w {
		return tt.Extract(a, w-1, 0)
	}
	if a.IsConst() && w <= 64 {
		return tt.Const(w, uint64(a.sval()))
	}
	return tt.mk(&Term{op: OpSExt, w: w, args: []*Term{a}, hi: w - a.w})
}

func (tt *TermTable) Concat(hi, lo *Term) *Term {
	w := hi.w + lo.w
	if hi.IsConst() && lo.IsConst() && w <= 64 {
		return tt.Const(w, hi.val<<uint(lo.w)|lo.val)
	}
	return tt.mk(&Term{op: OpConcat, w: w, args: []*Term{hi, lo}})
}

func sortStr(w int) string {
	if w == 0 {
		return "Bool"
	}
	return fmt.Sprintf("(_ BitVec %d)", w)
}

func (t *Term) ref() string {
	switch t.op {
	case OpConst:
		if t.w == 0 {
			if t.val != 0 {
				return "true"
			}
			return "false"
		}
		if t.w <= 64 {
			return fmt.Sprintf("(_ bv%d %d)", t.val&mask(t.w), t.w)
		}
		return fmt.Sprintf("(_ bv%d %d)", t.val, t.w)
	case OpVar:
		return "|" + t.name + "|"
	}
	return fmt.Sprintf("t%d", t.id)
}

// def returns the SMT-LIB body of a composite term (args by reference).
func (t *Term) def() string {
	switch t.op {
	case OpExtract:
		return fmt.Sprintf("((_ extract %d %d) %s)", t.hi, t.lo, t.args[0].ref())
	case OpZExt:
		return fmt.Sprintf("((_ zero_extend %d) %s)", t.hi, t.args[0].ref())
	case OpSExt:
		return fmt.Sprintf("((_ sign_extend %d) %s)", t.hi, t.args[0].ref())
	case OpUF:
		var sb strings.Builder
		sb.WriteString("(|" + t.name + "|")
		for _, a := range t.args {
			sb.WriteString(" " + a.ref())
		}
		sb.WriteString(")")
		return sb.String()
	}
	var sb strings.Builder
	sb.WriteString("(" + opNames[t.op])
	for _, a := range t.args {
		sb.WriteString(" " + a.ref())
	}
	sb.WriteString(")")
	return sb.String()
}

// Eval evaluates t under a model (variable name -> value); w<=64 only.
// Unknown variables evaluate to 0. UF terms are looked up by their ref name.
func (tt *TermTable) Eval(t *Term, model map[string]uint64, memo map[int]uint64) uint64 {
	if v, ok := memo[t.id]; ok {
		return v
	}
	var r uint64
	a := func(i int) uint64 { return tt.Eval(t.args[i], model, memo) }
	sx := func(v uint64, w int) int64 {
		if w >= 64 {
			return int64(v)
		}
		sh := uint(64 - w)
		return int64(v<<sh) >> sh
	}
	switch t.op {
	case OpConst:
		r = t.val
	case OpVar:
		r = model[t.name]
	case OpUF:
		r = model[t.ref()]
	case OpNot:
		r = 1 - a(0)
	case OpAnd:
		r = a(0) & a(1)
	case OpOr:
		r = a(0) | a(1)
	case OpEq:
		if a(0) == a(1) {
			r = 1
		}
	case OpIte:
		if a(0) != 0 {
			r = a(1)
		} else {
			r = a(2)
		}
	case OpAdd:
		r = a(0) + a(1)
	case OpSub:
		r = a(0) - a(1)
	case OpMul:
		r = a(0) * a(1)
	case OpUDiv:
		if a(1) == 0 {
			r = mask(t.w)
		} else {
			r = a(0) / a(1)
		}
	case OpURem:
		if a(1) == 0 {
			r = a(0)
		} else {
			r = a(0) % a(1)
		}
	case OpSDiv:
		x, y := sx(a(0), t.w), sx(a(1), t.w)
		if y == 0 {
			if x < 0 {
				r = 1
			} else {
				r = mask(t.w)
			}
		} else if y == -1 {
			r = uint64(-x)
		} else {
			r = uint64(x / y)
		}
	case OpSRem:
		x, y := sx(a(0), t.w), sx(a(1), t.w)
		if y == 0 {
			r = uint64(x)
		} else if y == -1 {
			r = 0
		} else {
			r = uint64(x % y)
		}
	case OpBAnd:
		r = a(0) & a(1)
	case OpBOr:
		r = a(0) | a(1)
	case OpBXor:
		r = a(0) ^ a(1)
	case OpBNot:
		r = ^a(0)
	case OpNeg:
		r = -a(0)
	case OpShl:
		if a(1) >= uint64(t.w) {
			r = 0
		} else {
			r = a(0) << a(1)
		}
	case OpLShr:
		if a(1) >= uint64(t.w) {
			r = 0
		} else {
			r = a(0) >> a(1)
		}
	case OpAShr:
		s := a(1)
		if s >= uint64(t.w) {
			s = uint64(t.w - 1)
		}
		r = uint64(sx(a(0), t.w) >> s)
	case OpULt:
		if a(0) < a(1) {
			r = 1
		}
	case OpULe:
		if a(0) <= a(1) {
			r = 1
		}
	case OpSLt:
		if sx(a(0), t.args[0].w) < sx(a(1), t.args[0].w) {
			r = 1
		}
	case OpSLe:
		if sx(a(0), t.args[0].w) <= sx(a(1), t.args[0].w) {
			r = 1
		}
	case OpExtract:
		r = a(0) >> uint(t.lo)
	case OpZExt:
		r = a(0)
	case OpSExt:
		r = uint64(sx(a(0), t.args[0].w))
	case OpConcat:
		r = a(0)<<uint(t.args[1].w) | a(1)
	}
	if t.w > 0 && t.w < 64 {
		r &= mask(t.w)
	}
	if t.w == 0 {
		r &= 1
	}
	memo[t.id] = r
	return r
}

// wide reports whether the term (or a subterm) is wider than 64 bits or uses a UF,
// in which case Eval is not usable.
func (tt *TermTable) evaluable(t *Term, memo map[int]bool, model map[string]uint64) bool {
	if v, ok := memo[t.id]; ok {
		return v
	}
	ok := t.w <= 64 && t.op != OpUF
	if ok && t.op == OpVar {
		_, ok = model[t.name]
	}
	if ok {
		for _, a := range t.args {
			if !tt.evaluable(a, memo, model) {
				ok = false
				break
			}
		}
	}
	memo[t.id] = ok
	return ok
}

var _ = bits.Len
