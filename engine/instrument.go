package main

// Native replay of schedules: the package under test is re-printed with a call
// verifrt.Point("<file>:<line>") at every synchronisation operation (before Lock, atomics,
// channel operations, Once.Do, WaitGroup.Wait, time.Sleep; after Unlock/RUnlock/Done) and
// with `go f()` turned into verifrt.GoAt(pos, func(){ f() }), so that the deterministic baton
// scheduler in verifrt can impose the recorded context switches on the real code. The
// instrumented copies are mounted by the go test overlay; /repo is never written.

import (
	"bytes"
	"fmt"
	"go/ast"
	"go/printer"
	"go/token"
	"go/types"
	"os"
	"regexp"
	"strings"

	"golang.org/x/tools/go/packages"
)

var loadedPkgs = map[string]*packages.Package{} // by dir relative to the repo root

var preOps = map[string]bool{
	"(*sync.Mutex).Lock": true, "(*sync.Mutex).TryLock": true, "(*sync.RWMutex).Lock": true, "(*sync.RWMutex).RLock": true,
	"(*sync.Once).Do": true, "(*sync.WaitGroup).Wait": true, "time.Sleep": true, "runtime.Gosched": true,
}
var postOps = map[string]bool{
	"(*sync.Mutex).Unlock": true, "(*sync.RWMutex).Unlock": true, "(*sync.RWMutex).RUnlock": true, "(*sync.WaitGroup).Done": true,
}

type instr struct {
	fset     *token.FileSet
	info     *types.Info
	used     bool
	pkgScope *types.Scope
}

func (x *instr) posStr(p token.Pos) string {
	pp := x.fset.Position(p)
	return fmt.Sprintf("%s:%d", shortFile(pp.Filename), pp.Line)
}

func (x *instr) callee(call *ast.CallExpr) string {
	var id *ast.Ident
	switch f := call.Fun.(type) {
	case *ast.SelectorExpr:
		id = f.Sel
	case *ast.Ident:
		id = f
	default:
		return ""
	}
	obj := x.info.Uses[id]
	if fn, ok := obj.(*types.Func); ok {
		return fn.FullName()
	}
	if b, ok := obj.(*types.Builtin); ok {
		return "builtin." + b.Name()
	}
	return ""
}

// syncOps lists the sync points inside an expression/statement header (not inside nested
// function literals or nested blocks): pre-points and post-points.
func (x *instr) syncOps(n ast.Node) (pre, post []string) {
	if n == nil {
		return
	}
	ast.Inspect(n, func(m ast.Node) bool {
		switch e := m.(type) {
		case *ast.FuncLit, *ast.BlockStmt:
			return false
		case *ast.CallExpr:
			name := x.callee(e)
			switch {
			case preOps[name] || strings.HasPrefix(name, "sync/atomic.") || strings.HasPrefix(name, "(*sync/atomic."):
				pre = append(pre, x.posStr(e.Lparen))
			case postOps[name]:
				post = append(post, x.posStr(e.Lparen))
			case name == "builtin.close":
				pre = append(pre, x.posStr(e.Lparen))
			}
		case *ast.UnaryExpr:
			if e.Op == token.ARROW {
				pre = append(pre, x.posStr(e.OpPos))
			}
		}
		return true
	})
	return
}

func (x *instr) point(pos string) ast.Stmt {
	x.used = true
	return &ast.ExprStmt{X: &ast.CallExpr{
		Fun:  &ast.SelectorExpr{X: ast.NewIdent("verifrt"), Sel: ast.NewIdent("Point")},
		Args: []ast.Expr{&ast.BasicLit{Kind: token.STRING, Value: fmt.Sprintf("%q", pos)}},
	}}
}

func (x *instr) after(pos string) ast.Stmt {
	x.used = true
	return &ast.ExprStmt{X: &ast.CallExpr{
		Fun:  &ast.SelectorExpr{X: ast.NewIdent("verifrt"), Sel: ast.NewIdent("After")},
		Args: []ast.Expr{&ast.BasicLit{Kind: token.STRING, Value: fmt.Sprintf("%q", pos)}},
	}}
}

// chanOps lists the positions of channel operations in a statement header.
func (x *instr) chanOps(n ast.Node) (ops []string) {
	if n == nil {
		return
	}
	ast.Inspect(n, func(m ast.Node) bool {
		switch e := m.(type) {
		case *ast.FuncLit, *ast.BlockStmt:
			return false
		case *ast.UnaryExpr:
			if e.Op == token.ARROW {
				ops = append(ops, x.posStr(e.OpPos))
			}
		}
		return true
	})
	return
}

func (x *instr) block(b *ast.BlockStmt) {
	if b == nil {
		return
	}
	b.List = x.stmts(b.List)
}

func (x *instr) funcLits(n ast.Node) {
	if n == nil {
		return
	}
	ast.Inspect(n, func(m ast.Node) bool {
		if fl, ok := m.(*ast.FuncLit); ok {
			x.block(fl.Body)
			return false
		}
		if _, ok := m.(*ast.BlockStmt); ok {
			return false
		}
		return true
	})
}

func (x *instr) stmts(list []ast.Stmt) []ast.Stmt {
	var out []ast.Stmt
	for _, s := range list {
		var pre, post, afters []string
		var lbl *ast.LabeledStmt
		if l, ok := s.(*ast.LabeledStmt); ok {
			lbl = l
			s = l.Stmt
		}
		switch st := s.(type) {
		case *ast.BlockStmt:
			x.block(st)
		case *ast.IfStmt:
			p1, q1 := x.syncOps(st.Init)
			p2, q2 := x.syncOps(st.Cond)
			pre, post = append(p1, p2...), append(q1, q2...)
			x.funcLits(st.Init)
			x.funcLits(st.Cond)
			x.block(st.Body)
			if st.Else != nil {
				st.Else = x.stmts([]ast.Stmt{st.Else})[0]
			}
		case *ast.ForStmt:
			p1, _ := x.syncOps(st.Init)
			p2, _ := x.syncOps(st.Cond)
			pre = append(p1, p2...)
			x.block(st.Body)
			// the condition is re-evaluated after every iteration
			if len(p2) > 0 && st.Body != nil {
				for _, p := range p2 {
					st.Body.List = append(st.Body.List, x.point(p))
				}
			}
		case *ast.RangeStmt:
			if t := x.info.TypeOf(st.X); t != nil {
				if _, ok := t.Underlying().(*types.Chan); ok {
					pre = append(pre, x.posStr(st.For))
				}
			}
			x.block(st.Body)
			if len(pre) > 0 && st.Body != nil {
				st.Body.List = append([]ast.Stmt{x.after(pre[0])}, st.Body.List...)
			}
		case *ast.SwitchStmt:
			p1, _ := x.syncOps(st.Init)
			p2, _ := x.syncOps(st.Tag)
			pre = append(p1, p2...)
			for _, c := range st.Body.List {
				cc := c.(*ast.CaseClause)
				for _, e := range cc.List {
					p3, _ := x.syncOps(e)
					pre = append(pre, p3...)
				}
				cc.Body = x.stmts(cc.Body)
			}
		case *ast.TypeSwitchStmt:
			for _, c := range st.Body.List {
				cc := c.(*ast.CaseClause)
				cc.Body = x.stmts(cc.Body)
			}
		case *ast.SelectStmt:
			pre = append(pre, x.posStr(st.Select))
			for _, c := range st.Body.List {
				cc := c.(*ast.CommClause)
				cc.Body = append([]ast.Stmt{x.after(x.posStr(st.Select))}, x.stmts(cc.Body)...)
			}
		case *ast.SendStmt:
			pre = append(pre, x.posStr(st.Arrow))
			p1, _ := x.syncOps(st.Value)
			pre = append(pre, p1...)
			afters = append(afters, x.posStr(st.Arrow))
		case *ast.GoStmt:
			// go f(args) -> verifrt.GoAt(pos, func() { f(args) }) with the arguments evaluated now
			x.funcLits(st.Call)
			pos := x.posStr(st.Go)
			var assigns []ast.Stmt
			call := *st.Call
			call.Args = nil
			for i, a := range st.Call.Args {
				v := ast.NewIdent(fmt.Sprintf("verifArg%d_%d", st.Go, i))
				assigns = append(assigns, &ast.AssignStmt{Lhs: []ast.Expr{v}, Tok: token.DEFINE, Rhs: []ast.Expr{a}})
				call.Args = append(call.Args, v)
			}
			if st.Call.Ellipsis != token.NoPos {
				call.Ellipsis = 1
			}
			x.used = true
			goat := &ast.ExprStmt{X: &ast.CallExpr{
				Fun: &ast.SelectorExpr{X: ast.NewIdent("verifrt"), Sel: ast.NewIdent("GoAt")},
				Args: []ast.Expr{&ast.BasicLit{Kind: token.STRING, Value: fmt.Sprintf("%q", pos)},
					&ast.FuncLit{Type: &ast.FuncType{Params: &ast.FieldList{}}, Body: &ast.BlockStmt{List: []ast.Stmt{&ast.ExprStmt{X: &call}}}}},
			}}
			if lbl != nil {
				lbl.Stmt = &ast.BlockStmt{List: append(assigns, goat)}
				out = append(out, lbl)
			} else {
				out = append(out, assigns...)
				out = append(out, goat)
			}
			continue
		case *ast.DeferStmt:
			x.funcLits(st.Call)
			name := x.callee(st.Call)
			pos := x.posStr(st.Defer)
			if postOps[name] || preOps[name] || strings.HasPrefix(name, "sync/atomic.") || strings.HasPrefix(name, "(*sync/atomic.") || name == "builtin.close" {
				// defer x.Unlock() -> defer func(){ x.Unlock(); Point }()   (pre-ops: Point first)
				inner := &ast.ExprStmt{X: st.Call}
				var body []ast.Stmt
				if postOps[name] {
					body = []ast.Stmt{inner, x.point(pos)}
				} else {
					body = []ast.Stmt{x.point(pos), inner}
				}
				st.Call = &ast.CallExpr{Fun: &ast.FuncLit{Type: &ast.FuncType{Params: &ast.FieldList{}}, Body: &ast.BlockStmt{List: body}}}
			}
		default:
			pre, post = x.syncOps(s)
			afters = append(afters, x.chanOps(s)...)
			x.funcLits(s)
		}
		var group []ast.Stmt
		for _, p := range pre {
			group = append(group, x.point(p))
		}
		if lbl != nil {
			// keep the label on the first statement of the group
			if len(group) > 0 {
				first := group[0]
				lbl.Stmt = first
				group[0] = lbl
				group = append(group, s)
			} else {
				lbl.Stmt = s
				group = append(group, lbl)
			}
		} else {
			group = append(group, s)
		}
		// a return/branch statement cannot be followed by a post point
		switch s.(type) {
		case *ast.ReturnStmt, *ast.BranchStmt:
		default:
			for _, p := range afters {
				group = append(group, x.after(p))
			}
			for _, p := range post {
				group = append(group, x.point(p))
			}
		}
		out = append(out, group...)
	}
	return out
}

var osRewrites = map[string]string{
	"os.OpenFile": "OSOpenFile", "os.Rename": "OSRename", "os.Remove": "OSRemove", "os.ReadFile": "OSReadFile",
	"(*os.File).Write": "OSWrite", "(*os.File).Sync": "OSSync", "(*os.File).Close": "OSClose",
}

// nativeStubNames: function names (go/types FullName) that some harness redirects with
// verifrt.StubNative; filled from the harness sources before instrumenting.
var nativeStubNames = map[string]bool{}

var reStubNative = regexp.MustCompile(`verifrt\.StubNative\("([^"]+)"`)

func collectNativeStubs(dirFiles map[string][]string) {
	for _, files := range dirFiles {
		for _, f := range files {
			data, _ := os.ReadFile(f)
			for _, m := range reStubNative.FindAllStringSubmatch(string(data), -1) {
				nativeStubNames[m[1]] = true
			}
		}
	}
}

// nativeStubPrologue: `if f := verifrt.NativeStub(name); f != nil { return f.(func(recv, params) results)(recv, params...) }`
// at the top of a function some harness redirects with verifrt.StubNative, so that the native
// replay has the same thread structure and environment as the symbolic run.
func (x *instr) nativeStubPrologue(fd *ast.FuncDecl) {
	obj, _ := x.info.Defs[fd.Name].(*types.Func)
	if obj == nil || !nativeStubNames[obj.FullName()] {
		return
	}
	var ptypes, args []ast.Expr
	add := func(fl *ast.FieldList) bool {
		if fl == nil {
			return true
		}
		for _, f := range fl.List {
			if len(f.Names) == 0 {
				return false
			}
			if _, variadic := f.Type.(*ast.Ellipsis); variadic {
				return false
			}
			for _, nm := range f.Names {
				if nm.Name == "_" {
					return false
				}
				ptypes = append(ptypes, f.Type)
				args = append(args, ast.NewIdent(nm.Name))
			}
		}
		return true
	}
	if !add(fd.Recv) || !add(fd.Type.Params) {
		return
	}
	ft := &ast.FuncType{Params: &ast.FieldList{}, Results: fd.Type.Results}
	for _, t := range ptypes {
		ft.Params.List = append(ft.Params.List, &ast.Field{Type: t})
	}
	call := &ast.CallExpr{Fun: &ast.TypeAssertExpr{X: ast.NewIdent("verifStubF"), Type: ft}, Args: args}
	var body []ast.Stmt
	if fd.Type.Results != nil && len(fd.Type.Results.List) > 0 {
		body = []ast.Stmt{&ast.ReturnStmt{Results: []ast.Expr{call}}}
	} else {
		body = []ast.Stmt{&ast.ExprStmt{X: call}, &ast.ReturnStmt{}}
	}
	ifs := &ast.IfStmt{
		Init: &ast.AssignStmt{Lhs: []ast.Expr{ast.NewIdent("verifStubF")}, Tok: token.DEFINE, Rhs: []ast.Expr{&ast.CallExpr{
			Fun:  &ast.SelectorExpr{X: ast.NewIdent("verifrt"), Sel: ast.NewIdent("NativeStub")},
			Args: []ast.Expr{&ast.BasicLit{Kind: token.STRING, Value: fmt.Sprintf("%q", obj.FullName())}},
		}}},
		Cond: &ast.BinaryExpr{X: ast.NewIdent("verifStubF"), Op: token.NEQ, Y: ast.NewIdent("nil")},
		Body: &ast.BlockStmt{List: body},
	}
	fd.Body.List = append([]ast.Stmt{ifs}, fd.Body.List...)
	x.used = true
}

// hookRewrites: calls redirected natively to an in-package harness function when the package
// declares it (the function decides at run time whether to call through to the real one).
var hookRewrites = map[string]string{
	"github.com/nsqio/go-diskqueue.New": "verifHookDiskqueueNew",
}

// rewriteOS turns os file calls into verifrt wrappers (native crash/fault injection).
func (x *instr) rewriteOS(f *ast.File) {
	ast.Inspect(f, func(n ast.Node) bool {
		call, ok := n.(*ast.CallExpr)
		if !ok {
			return true
		}
		name := x.callee(call)
		if hook, isHook := hookRewrites[name]; isHook && x.pkgScope != nil && x.pkgScope.Lookup(hook) != nil {
			// harness-declared native stand-in (the native counterpart of verifrt.Stub)
			call.Fun = ast.NewIdent(hook)
			x.used = true
			return true
		}
		w, ok := osRewrites[name]
		if !ok {
			return true
		}
		fun := &ast.SelectorExpr{X: ast.NewIdent("verifrt"), Sel: ast.NewIdent(w)}
		if strings.HasPrefix(name, "(*os.File).") {
			sel := call.Fun.(*ast.SelectorExpr)
			call.Args = append([]ast.Expr{sel.X}, call.Args...)
		}
		call.Fun = fun
		x.used = true
		return true
	})
}

// instrumentPackage returns virtual-path -> instrumented source for every non-test file of dir.
func instrumentPackage(dir string) (map[string][]byte, error) {
	pkg := loadedPkgs[dir]
	if pkg == nil {
		return nil, fmt.Errorf("package %s not loaded", dir)
	}
	out := map[string][]byte{}
	for i, f := range pkg.Syntax {
		name := pkg.CompiledGoFiles[i]
		if strings.HasSuffix(name, "_test.go") {
			continue
		}
		x := &instr{fset: pkg.Fset, info: pkg.TypesInfo, pkgScope: pkg.Types.Scope()}
		if !strings.Contains(name, "zz_verif_") {
			x.rewriteOS(f)
		}
		for _, d := range f.Decls {
			if fd, ok := d.(*ast.FuncDecl); ok && fd.Body != nil {
				x.block(fd.Body)
				if !strings.Contains(name, "zz_verif_") {
					x.nativeStubPrologue(fd)
				}
			}
		}
		if !x.used {
			continue
		}
		// make sure verifrt is imported
		has := false
		for _, im := range f.Imports {
			if strings.Contains(im.Path.Value, "internal/verifrt") && (im.Name == nil || im.Name.Name == "verifrt") {
				has = true
			}
		}
		var buf bytes.Buffer
		if err := printer.Fprint(&buf, pkg.Fset, f); err != nil {
			return nil, err
		}
		src := buf.Bytes()
		if !has {
			src = addImport(src, `verifrt "github.com/nsqio/nsq/internal/verifrt"`)
		}
		out[name] = src
	}
	return out, nil
}

func addImport(src []byte, spec string) []byte {
	idx := bytes.Index(src, []byte("\npackage "))
	start := 0
	if bytes.HasPrefix(src, []byte("package ")) {
		start = 0
	} else if idx >= 0 {
		start = idx + 1
	}
	nl := bytes.IndexByte(src[start:], '\n')
	if nl < 0 {
		return src
	}
	at := start + nl + 1
	var nb bytes.Buffer
	nb.Write(src[:at])
	nb.WriteString("\nimport " + spec + "\n")
	nb.Write(src[at:])
	return nb.Bytes()
}
