package main

// regexp model: the literal pattern is read from the program, compiled with
// regexp/syntax to its NFA, and MatchString is unrolled into a predicate over the
// (concrete-length, symbolic-content) subject by a symbolic Thompson simulation.

import (
	"go/types"
	"regexp/syntax"
	"sync"
	"unicode"
)

var (
	rxMu    sync.Mutex
	rxCache = map[string]*syntax.Prog{}
)

func compileRx(pat string) (*syntax.Prog, error) {
	rxMu.Lock()
	defer rxMu.Unlock()
	if p, ok := rxCache[pat]; ok {
		return p, nil
	}
	re, err := syntax.Parse(pat, syntax.Perl)
	if err != nil {
		return nil, err
	}
	p, err := syntax.Compile(re.Simplify())
	if err != nil {
		return nil, err
	}
	rxCache[pat] = p
	return p, nil
}

func init() {
	mk := func(in *Interp, fr *frame, args []value) value {
		pat, ok := concStr(args[0].(strV))
		if !ok {
			in.unsupported("regexp with symbolic pattern")
		}
		if _, err := compileRx(pat); err != nil {
			in.unsupported("regexp %q: %v", pat, err)
		}
		rp := in.prog.ImportedPackage("regexp")
		var cell value = in.zero(rp.Type("Regexp").Object().Type())
		p := &cell
		in.regexps[p] = pat
		return p
	}
	intrinsics["regexp.MustCompile"] = mk
	intrinsics["regexp.Compile"] = func(in *Interp, fr *frame, args []value) value {
		return tuple{mk(in, fr, args), iface{}}
	}
	match := func(in *Interp, fr *frame, args []value) value {
		pat, ok := in.regexps[args[0].(*value)]
		if !ok {
			in.unsupported("MatchString on unknown regexp object")
		}
		var subj []*Term
		switch s := args[1].(type) {
		case strV:
			subj = s.b
		case []value:
			for _, e := range s {
				subj = append(subj, e.(*Term))
			}
		}
		return in.rxMatch(pat, subj)
	}
	intrinsics["(*regexp.Regexp).MatchString"] = match
	intrinsics["(*regexp.Regexp).Match"] = match
	_ = types.Typ
}

func (in *Interp) rxMatch(pat string, s []*Term) *Term {
	prog, _ := compileRx(pat)
	tt := in.tt
	// do any instructions accept non-ASCII runes?
	nonASCII := false
	for _, ins := range prog.Inst {
		switch ins.Op {
		case syntax.InstRuneAny, syntax.InstRuneAnyNotNL:
			nonASCII = true
		case syntax.InstRune, syntax.InstRune1:
			for i := 0; i+1 < len(ins.Rune); i += 2 {
				if ins.Rune[i+1] >= 0x80 {
					nonASCII = true
				}
			}
			if len(ins.Rune) == 1 && ins.Rune[0] >= 0x80 {
				nonASCII = true
			}
		}
	}
	if nonASCII {
		all := tt.True
		for _, b := range s {
			all = tt.And(all, tt.ULt(b, tt.Const(8, 0x80)))
		}
		if !in.branch(all, "rx-ascii") {
			in.unsupported("regexp %q with non-ASCII class on a subject that may contain non-ASCII bytes", pat)
		}
	}
	n := len(s)
	act := make([]*Term, len(prog.Inst))
	clear := func() {
		for i := range act {
			act[i] = tt.False
		}
	}
	clear()
	matched := tt.False
	var add func(pc uint32, t *Term, pos int, seen map[uint32]bool, into []*Term)
	add = func(pc uint32, t *Term, pos int, seen map[uint32]bool, into []*Term) {
		if seen[pc] {
			return
		}
		seen[pc] = true
		ins := &prog.Inst[pc]
		switch ins.Op {
		case syntax.InstAlt, syntax.InstAltMatch:
			add(ins.Out, t, pos, seen, into)
			add(ins.Arg, t, pos, seen, into)
		case syntax.InstNop, syntax.InstCapture:
			add(ins.Out, t, pos, seen, into)
		case syntax.InstEmptyWidth:
			need := syntax.EmptyOp(ins.Arg)
			// conditions with concrete position; word boundaries / line anchors need bytes
			okc := tt.True
			if need&syntax.EmptyBeginText != 0 && pos != 0 {
				okc = tt.False
			}
			if need&syntax.EmptyEndText != 0 && pos != n {
				okc = tt.False
			}
			if need&syntax.EmptyBeginLine != 0 && pos != 0 {
				okc = tt.And(okc, tt.Eq(s[pos-1], tt.Const(8, '\n')))
			}
			if need&syntax.EmptyEndLine != 0 && pos != n {
				okc = tt.And(okc, tt.Eq(s[pos], tt.Const(8, '\n')))
			}
			if need&(syntax.EmptyWordBoundary|syntax.EmptyNoWordBoundary) != 0 {
				in.unsupported("regexp word boundary")
			}
			if okc != tt.False {
				add(ins.Out, tt.And(t, okc), pos, seen, into)
			}
		case syntax.InstMatch:
			matched = tt.Or(matched, t)
		case syntax.InstFail:
		default:
			into[pc] = tt.Or(into[pc], t)
		}
	}
	runeCond := func(ins *syntax.Inst, b *Term) *Term {
		switch ins.Op {
		case syntax.InstRuneAny:
			return tt.True
		case syntax.InstRuneAnyNotNL:
			return tt.Not(tt.Eq(b, tt.Const(8, '\n')))
		}
		rs := ins.Rune
		c := tt.False
		one := func(r rune) *Term {
			if r >= 0x80 {
				return tt.False
			}
			return tt.Eq(b, tt.Const(8, uint64(r)))
		}
		if len(rs) == 1 {
			c = one(rs[0])
			if syntax.Flags(ins.Arg)&syntax.FoldCase != 0 {
				for r := unicode.SimpleFold(rs[0]); r != rs[0]; r = unicode.SimpleFold(r) {
					c = tt.Or(c, one(r))
				}
			}
			return c
		}
		for i := 0; i+1 < len(rs); i += 2 {
			lo, hi := rs[i], rs[i+1]
			if lo >= 0x80 {
				continue
			}
			if hi >= 0x80 {
				hi = 0x7f
			}
			c = tt.Or(c, tt.And(tt.ULe(tt.Const(8, uint64(lo)), b), tt.ULe(b, tt.Const(8, uint64(hi)))))
		}
		return c
	}
	for pos := 0; pos <= n; pos++ {
		// unanchored search: a match may start at every position
		add(uint32(prog.Start), tt.True, pos, map[uint32]bool{}, act)
		if pos == n {
			break
		}
		next := make([]*Term, len(prog.Inst))
		for i := range next {
			next[i] = tt.False
		}
		for pc := range prog.Inst {
			if act[pc] == tt.False {
				continue
			}
			ins := &prog.Inst[pc]
			t := tt.And(act[pc], runeCond(ins, s[pos]))
			if t != tt.False {
				add(ins.Out, t, pos+1, map[uint32]bool{}, next)
			}
		}
		act = next
	}
	return matched
}
