package main

// Loop-step mode: run ONE iteration of a designated loop of the real function from an
// arbitrary loop-head state. The harness names the function and loop and supplies the
// values of the header phis (by source variable name); on the first arrival at the header
// the phis are overridden, and when the back-edge brings control to the header again the
// incoming phi values are recorded (LoopPost*) and the call is cut (LoopStep returns false).

import (
	"fmt"
	"go/token"

	"golang.org/x/tools/go/ssa"
)

type loopSpec struct {
	fn      string
	loop    int
	vals    map[string]value
	entered bool
	frame   *frame
	header  *ssa.BasicBlock
}

type loopBackEdge struct{}

func loopHeaders(fn *ssa.Function) []*ssa.BasicBlock {
	var hs []*ssa.BasicBlock
	for _, b := range fn.Blocks {
		for _, p := range b.Preds {
			if b.Dominates(p) {
				hs = append(hs, b)
				break
			}
		}
	}
	return hs
}

// loopHook is called when a frame enters a block (after computing the regular phis).
func (in *Interp) loopHook(fr *frame) {
	spec := in.loopSpecs[fr.fn.String()]
	if spec == nil {
		return
	}
	if spec.header == nil {
		hs := loopHeaders(fr.fn)
		if spec.loop >= len(hs) {
			in.unsupported("LoopHavoc: function %s has only %d loops", spec.fn, len(hs))
		}
		spec.header = hs[spec.loop]
	}
	if fr.block != spec.header {
		return
	}
	if !spec.entered {
		spec.entered = true
		spec.frame = fr
		used := map[string]bool{}
		for _, instr := range fr.block.Instrs {
			phi, ok := instr.(*ssa.Phi)
			if !ok {
				break
			}
			if v, ok := spec.vals[phi.Comment]; ok {
				fr.env[phi] = v
				used[phi.Comment] = true
			}
		}
		for k := range spec.vals {
			if !used[k] {
				in.unsupported("LoopHavoc: loop %d of %s has no header variable %q", spec.loop, spec.fn, k)
			}
		}
		return
	}
	if fr != spec.frame {
		return
	}
	// back at the header of the same activation: one iteration done
	for _, instr := range fr.block.Instrs {
		phi, ok := instr.(*ssa.Phi)
		if !ok {
			break
		}
		if phi.Comment != "" {
			in.loopPost[phi.Comment] = fr.env[phi]
		}
	}
	panic(loopBackEdge{})
}

func init() {
	intrinsics[rtPkg+"LoopHavoc"] = func(in *Interp, fr *frame, args []value) value {
		fn := in.argStr(args[0])
		loop := int(args[1].(*Term).sval())
		name := in.argStr(args[2])
		spec := in.loopSpecs[fn]
		if spec == nil {
			spec = &loopSpec{fn: fn, loop: loop, vals: map[string]value{}}
			in.loopSpecs[fn] = spec
		}
		v := args[3].(iface)
		spec.vals[name] = v.v
		in.h.Bounds["loop-step:"+fn] = int64(loop)
		return nil
	}
	intrinsics[rtPkg+"LoopStep"] = func(in *Interp, fr *frame, args []value) (res value) {
		in.loopPost = map[string]value{}
		in.loopBlocked = false
		returned := true
		func() {
			defer func() {
				if r := recover(); r != nil {
					if _, ok := r.(loopBackEdge); ok {
						returned = false
						return
					}
					if _, ok := r.(deadlockErr); ok && in.cur.isMain {
						// the iteration ended blocked (nothing to select on): it waits
						returned = false
						in.loopBlocked = true
						in.cur.blocked = nil
						return
					}
					panic(r)
				}
			}()
			in.call(fr, token.NoPos, args[0], nil)
		}()
		for _, s := range in.loopSpecs {
			if !s.entered && returned {
				// the function returned without ever reaching the loop: fine, but say so
				in.ghostInc("loopstep-never-entered")
			}
		}
		in.loopSpecs = map[string]*loopSpec{}
		return in.tt.Bool(returned)
	}
	post := func(in *Interp, fr *frame, args []value) value {
		name := in.argStr(args[0])
		v, ok := in.loopPost[name]
		if !ok {
			in.unsupported("LoopPost: no header variable %q recorded", name)
		}
		return v
	}
	intrinsics[rtPkg+"LoopBlocked"] = func(in *Interp, fr *frame, args []value) value { return in.tt.Bool(in.loopBlocked) }
	for _, n := range []string{"LoopPostInt", "LoopPostInt64", "LoopPostUint64", "LoopPostBool", "LoopPostInt32"} {
		intrinsics[rtPkg+n] = post
	}
	intrinsics[rtPkg+"LoopPostIsNil"] = func(in *Interp, fr *frame, args []value) value {
		name := in.argStr(args[0])
		v, ok := in.loopPost[name]
		if !ok {
			in.unsupported("LoopPost: no header variable %q recorded", name)
		}
		switch x := v.(type) {
		case *chanV:
			return in.tt.Bool(x == nil)
		case *value:
			return in.tt.Bool(x == nil)
		case *mapV:
			return in.tt.Bool(x == nil)
		case iface:
			return in.tt.Bool(x.t == nil)
		case []value:
			return in.tt.Bool(x == nil)
		}
		panic(fmt.Sprintf("LoopPostIsNil on %T", v))
	}
}
