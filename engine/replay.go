package main

// Native replay of solver models against the real build (go test -overlay).

import (
	"bytes"
	"context"
	"encoding/json"
	"fmt"
	"os"
	"os/exec"
	"path/filepath"
	"regexp"
	"sort"
	"strconv"
	"strings"
	"sync"
	"time"
)

type replayJSON struct {
	Property string            `json:"property"`
	Harness  string            `json:"harness"`
	Dir      string            `json:"dir"`
	Tier     string            `json:"tier"`
	Label    string            `json:"label"`
	Kind     string            `json:"kind"`
	Detail   string            `json:"detail"`
	Stack    string            `json:"stack"`
	Values   map[string]uint64 `json:"values"`
	Clock    []int64           `json:"clock"`
	Schedule []schedStep       `json:"schedule,omitempty"`
	Observe  map[string]string `json:"predicted_observations,omitempty"`
	Repeat   int               `json:"repeat,omitempty"` // "impossible": native runs to look for the event
}

func writeReplay(path, prop string, h harnessInfo, v *Violation, tier string) {
	r := replayJSON{Property: prop, Harness: h.Name, Dir: h.Dir, Tier: tier, Label: v.Label, Kind: v.Kind, Detail: v.Detail, Stack: v.Stack,
		Values: v.Model, Schedule: v.Sched, Observe: v.Observe}
	if v.Kind == "impossible" {
		r.Repeat = 48
	}
	if v.Kind == "race" {
		// confirmed natively by the Go race detector with the goroutines running freely
		r.Repeat = 8
		r.Schedule = nil
	}
	// clock readings in order
	type kv struct {
		n int
		v int64
	}
	var cl []kv
	for k, val := range v.Model {
		if strings.HasPrefix(k, "clock#") {
			n, _ := strconv.Atoi(k[6:])
			cl = append(cl, kv{n, int64(val)})
		}
	}
	sort.Slice(cl, func(i, j int) bool { return cl[i].n < cl[j].n })
	for _, c := range cl {
		r.Clock = append(r.Clock, c.v)
	}
	data, _ := json.MarshalIndent(r, "", " ")
	os.WriteFile(path, data, 0o644)
}

var loadedHarnessDirs = map[string]bool{}

var reTimeNow = regexp.MustCompile(`\btime\.Now\(\)`)
var reTimeSince = regexp.MustCompile(`\btime\.Since\(`)

// nativeRun runs the harness natively under the replay file; returns combined output.
func nativeRun(repo, verif string, dirFiles map[string][]string, h harnessInfo, replayPath string) (string, error) {
	tmp, err := os.MkdirTemp("", "gosmt-replay-")
	if err != nil {
		return "", err
	}
	defer os.RemoveAll(tmp)
	// generated test file listing all harness functions of the package dir
	var names []string
	for _, f := range dirFiles[h.Dir] {
		data, _ := os.ReadFile(f)
		for _, m := range regexp.MustCompile(`(?m)^func (Verif\w+)\(\)`).FindAllStringSubmatch(string(data), -1) {
			names = append(names, m[1])
		}
	}
	sort.Strings(names)
	pkgName := ""
	if len(dirFiles[h.Dir]) > 0 {
		data, _ := os.ReadFile(dirFiles[h.Dir][0])
		if m := regexp.MustCompile(`(?m)^package (\w+)`).FindSubmatch(data); m != nil {
			pkgName = string(m[1])
		}
	}
	var sb strings.Builder
	sb.WriteString("//go:build verif\n\npackage " + pkgName + "\n\nimport (\n\t\"testing\"\n\t\"github.com/nsqio/nsq/internal/verifrt\"\n)\n\n")
	sb.WriteString("func TestVerifReplay(t *testing.T) {\n\tverifrt.ReplayMain(map[string]func(){\n")
	for _, n := range names {
		fmt.Fprintf(&sb, "\t\t%q: %s,\n", n, n)
	}
	sb.WriteString("\t})\n}\n")
	testFile := filepath.Join(tmp, "replay_test.go")
	os.WriteFile(testFile, []byte(sb.String()), 0o644)
	// the same harness directories the symbolic run had mounted (a harness of one package may be
	// used by a harness of another, e.g. clusterinfo scripts used from nsqadmin)
	dirs := map[string]bool{h.Dir: true}
	for d := range loadedHarnessDirs {
		dirs[d] = true
	}
	ov := overlayFor(repo, verif, dirFiles, dirs, map[string]string{filepath.Join(repo, h.Dir, "zz_verif_replay_test.go"): testFile})
	// schedule control: instrumented copies of every file of the package (sync points, go statements)
	instrumented := map[string]bool{}
	if replayHasSchedule(replayPath) || replayWantsDisk(replayPath) || len(nativeStubNames) > 0 {
		srcs := map[string][]byte{}
		var dirs []string
		for d := range loadedPkgs {
			dirs = append(dirs, d)
		}
		sort.Strings(dirs)
		for _, d := range dirs {
			one, ierr := instrumentedSources(d)
			if ierr != nil {
				return "", ierr
			}
			for k, v := range one {
				srcs[k] = v
			}
		}
		k := 0
		for vpath, src := range srcs {
			src = reTimeNow.ReplaceAll(src, []byte("verifrt.Now()"))
			src = reTimeSince.ReplaceAll(src, []byte("verifrt.Since("))
			if bytes.Contains(src, []byte("\"time\"")) {
				src = append(src, []byte("\nvar _ = time.Now\n")...)
			}
			if bytes.Contains(src, []byte("\n\t\"os\"\n")) || bytes.Contains(src, []byte("import \"os\"")) {
				src = append(src, []byte("\nvar _ = os.Args\n")...)
			}
			k++
			cp := filepath.Join(tmp, fmt.Sprintf("ins%d_%s", k, filepath.Base(vpath)))
			os.WriteFile(cp, src, 0o644)
			ov[vpath] = cp
			instrumented[vpath] = true
		}
	}
	// clock control: rewrite time.Now() -> verifrt.Now() in copies of the package's non-test sources
	entries, _ := os.ReadDir(filepath.Join(repo, h.Dir))
	for _, e := range entries {
		n := e.Name()
		if e.IsDir() || !strings.HasSuffix(n, ".go") || strings.HasSuffix(n, "_test.go") {
			continue
		}
		if instrumented[filepath.Join(repo, h.Dir, n)] {
			continue
		}
		src, err := os.ReadFile(filepath.Join(repo, h.Dir, n))
		if err != nil || !(reTimeNow.Match(src) || reTimeSince.Match(src)) {
			continue
		}
		out := reTimeNow.ReplaceAll(src, []byte("verifrt.Now()"))
		out = reTimeSince.ReplaceAll(out, []byte("verifrt.Since("))
		// add import after the package clause
		loc := regexp.MustCompile(`(?m)^package \w+.*$`).FindIndex(out)
		if loc == nil {
			continue
		}
		var nb bytes.Buffer
		nb.Write(out[:loc[1]])
		nb.WriteString("\nimport verifrt \"github.com/nsqio/nsq/internal/verifrt\"\n")
		nb.Write(out[loc[1]:])
		nb.WriteString("\nvar _ = time.Now\n")
		// build tags: keep the file's own constraints; it replaces the original
		cp := filepath.Join(tmp, "clk_"+n)
		os.WriteFile(cp, nb.Bytes(), 0o644)
		ov[filepath.Join(repo, h.Dir, n)] = cp
	}
	ovj := map[string]map[string]string{"Replace": ov}
	ovData, _ := json.Marshal(ovj)
	ovFile := filepath.Join(tmp, "overlay.json")
	os.WriteFile(ovFile, ovData, 0o644)
	ctx, cancel := context.WithTimeout(context.Background(), 180*time.Second)
	defer cancel()
	args := []string{"test", "-tags", "verif", "-vet=off", "-count=1", "-timeout", "60s", "-run", "^TestVerifReplay$", "-v", "-overlay", ovFile, "./" + h.Dir}
	cgo := "CGO_ENABLED=0"
	if replayKind(replayPath) == "race" {
		args = append([]string{"test", "-race"}, args[1:]...)
		cgo = "CGO_ENABLED=1"
	}
	cmd := exec.CommandContext(ctx, "go", args...)
	cmd.Dir = repo
	cmd.Env = append(os.Environ(), "VERIF_REPLAY="+replayPath, cgo, "GOFLAGS=-mod=mod", "GOPROXY=off", "GOSUMDB=off", "GOTOOLCHAIN=local")
	out, err := cmd.CombinedOutput()
	return string(out), err
}

func replayNative(repo, verif string, dirFiles map[string][]string, h harnessInfo, path string, v *Violation) (bool, string) {
	out, _ := nativeRun(repo, verif, dirFiles, h, path)
	os.WriteFile(strings.TrimSuffix(path, ".json")+".native.log", []byte(out), 0o644)
	switch v.Kind {
	case "assert":
		if strings.Contains(out, "VERIF-ASSERT-FAILED "+v.Label+"\n") {
			return true, ""
		}
	case "panic":
		if strings.Contains(out, "VERIF-PANIC") || strings.Contains(out, "\npanic: ") || strings.Contains(out, "fatal error: ") {
			return true, ""
		}
	case "alloc":
		// the model drives the length far above the limit; confirm by measured allocation
		if m := regexp.MustCompile(`VERIF-ALLOC (\d+)`).FindStringSubmatch(out); m != nil {
			n, _ := strconv.ParseUint(m[1], 10, 64)
			if n >= 1<<20 {
				return true, ""
			}
		}
		if strings.Contains(out, "VERIF-PANIC") || strings.Contains(out, "\npanic: ") || strings.Contains(out, "fatal error: ") {
			return true, ""
		}
	case "race":
		if strings.Contains(out, "WARNING: DATA RACE") {
			return true, ""
		}
	case "impossible":
		// the solver's verdict is "for no value"; natively the harness ran Repeat times with the
		// real sources of randomness: confirmed when the event was never observed
		if strings.Contains(out, "VERIF-END") && !strings.Contains(out, "VERIF-REACHED "+v.Label+"\n") &&
			!strings.Contains(out, "VERIF-PANIC") && !strings.Contains(out, "VERIF-ASSERT-FAILED") {
			return true, ""
		}
	case "deadlock":
		if strings.Contains(out, "VERIF-DEADLOCK") || strings.Contains(out, "all goroutines are asleep") || strings.Contains(out, "test timed out") {
			return true, ""
		}
	}
	return false, tail(out, 600)
}

func replayWitness(repo, verif string, dirFiles map[string][]string, h harnessInfo, path, label string, predicted map[string]uint64, knownLabels map[string]bool) (bool, string) {
	out, _ := nativeRun(repo, verif, dirFiles, h, path)
	os.WriteFile(strings.TrimSuffix(path, ".json")+".native.log", []byte(out), 0o644)
	if !strings.Contains(out, "VERIF-END") {
		return false, "native run did not finish: " + tail(out, 600)
	}
	for _, m := range regexp.MustCompile(`VERIF-ASSERT-FAILED (\S+)`).FindAllStringSubmatch(out, -1) {
		// a recorded known finding of this harness (a race the free-running goroutines may hit) is
		// not a translation mismatch
		if !knownLabels[m[1]] {
			return false, "assertion failed natively on a witness: " + tail(out, 600)
		}
	}
	if strings.Contains(out, "VERIF-PANIC") {
		return false, "panic natively on a witness: " + tail(out, 800)
	}
	if !strings.Contains(out, "VERIF-REACHED "+label+"\n") {
		return false, "witness label not reached natively: " + tail(out, 600)
	}
	got := map[string]uint64{}
	for _, m := range regexp.MustCompile(`VERIF-OBSERVE (\S+)=(\d+)`).FindAllStringSubmatch(out, -1) {
		n, _ := strconv.ParseUint(m[2], 10, 64)
		got[m[1]] = n
	}
	for k, want := range predicted {
		if g, ok := got[k]; ok && g != want {
			return false, fmt.Sprintf("observation %s: encoding predicts %d, native run gives %d", k, want, g)
		}
	}
	return true, ""
}

func tail(s string, n int) string {
	s = strings.TrimSpace(s)
	if len(s) > n {
		s = "…" + s[len(s)-n:]
	}
	return strings.ReplaceAll(s, "\n", " | ")
}

// replayStored re-runs a stored counterexample against the current tree.
func replayStored(repo, verif, prop, path string) int {
	data, err := os.ReadFile(path)
	if err != nil {
		fmt.Println("cannot read", path, err)
		return 2
	}
	var r replayJSON
	if err := json.Unmarshal(data, &r); err != nil {
		fmt.Println("bad replay file", err)
		return 2
	}
	hs, dirFiles := findHarnesses(verif, r.Property)
	collectNativeStubs(dirFiles)
	// the packages are loaded as in a checking run: the schedule / stub instrumentation of the
	// native build is generated from the loaded syntax trees
	dirs := map[string]bool{r.Dir: true}
	for _, x := range hs {
		dirs[x.Dir] = true
	}
	for d := range dirs {
		loadedHarnessDirs[d] = true
	}
	if _, lerr := load(repo, verif, dirFiles, dirs); lerr != nil {
		fmt.Printf("INCONCLUSIVE property=%s reason=harness does not compile against the current tree: %v\n", r.Property, lerr)
		return 2
	}
	h := harnessInfo{Name: r.Harness, Dir: r.Dir}
	v := &Violation{Label: r.Label, Kind: r.Kind}
	ok, out := replayNative(repo, verif, dirFiles, h, path, v)
	if ok {
		fmt.Printf("VIOLATION property=%s replay=%s\n", r.Property, path)
		return 1
	}
	fmt.Printf("not reproduced: %s\n", out)
	return 0
}

func selftest() int {
	// evaluator vs solver on random terms
	tt := NewTermTable()
	s, err := NewSolver(KindZ3, tt, 10000)
	if err != nil {
		fmt.Println(err)
		return 2
	}
	defer s.Close()
	x, y := tt.Var("x", 64), tt.Var("y", 64)
	b := tt.Var("b", 8)
	terms := []*Term{
		tt.Add(x, y), tt.Sub(x, y), tt.Mul(x, tt.Const(64, 1000000)), tt.UDiv(x, y), tt.URem(x, y), tt.SDiv(x, y), tt.SRem(x, y),
		tt.Shl(x, tt.BAnd(y, tt.Const(64, 127))), tt.LShr(x, tt.BAnd(y, tt.Const(64, 127))), tt.AShr(x, tt.BAnd(y, tt.Const(64, 127))),
		tt.ZExt(b, 64), tt.SExt(b, 64), tt.Extract(x, 15, 8), tt.Concat(b, b), tt.Neg(x), tt.BNot(x),
		tt.Ite(tt.SLt(x, y), x, y), tt.Ite(tt.ULe(x, y), x, y),
	}
	models := []map[string]uint64{
		{"x": 5, "y": 0, "b": 200}, {"x": ^uint64(0), "y": 3, "b": 127}, {"x": 1 << 63, "y": ^uint64(0), "b": 128},
		{"x": 18446744073710, "y": 64, "b": 1}, {"x": 12345678901234567, "y": 65, "b": 255},
	}
	bad := 0
	for _, m := range models {
		as := []*Term{tt.Eq(x, tt.Const(64, m["x"])), tt.Eq(y, tt.Const(64, m["y"])), tt.Eq(b, tt.Const(8, m["b"]))}
		r, vals, msg := s.Check(as, terms)
		if r != Sat {
			fmt.Println("selftest: solver said", r, msg)
			return 2
		}
		for _, t := range terms {
			e := tt.Eval(t, m, map[int]uint64{})
			if e != vals[t.id] {
				fmt.Printf("selftest MISMATCH %s under %v: eval=%d solver=%d\n", t.def(), m, e, vals[t.id])
				bad++
			}
		}
	}
	if bad > 0 {
		return 1
	}
	fmt.Println("selftest ok:", len(terms)*len(models), "evaluations agree with z3")
	return 0
}

func replayKind(path string) string {
	data, err := os.ReadFile(path)
	if err != nil {
		return ""
	}
	var r replayJSON
	if json.Unmarshal(data, &r) != nil {
		return ""
	}
	return r.Kind
}

func replayHasSchedule(path string) bool {
	data, err := os.ReadFile(path)
	if err != nil {
		return false
	}
	var r replayJSON
	if json.Unmarshal(data, &r) != nil {
		return false
	}
	return len(r.Schedule) > 0
}

var (
	insMu    sync.Mutex
	insCache = map[string]map[string][]byte{}
)

func instrumentedSources(dir string) (map[string][]byte, error) {
	insMu.Lock()
	defer insMu.Unlock()
	if c, ok := insCache[dir]; ok {
		return c, nil
	}
	c, err := instrumentPackage(dir)
	if err != nil {
		return nil, err
	}
	insCache[dir] = c
	return c, nil
}

// replayWantsDisk: harnesses with crash points / disk faults carry a "disk:" value.
func replayWantsDisk(path string) bool {
	data, err := os.ReadFile(path)
	if err != nil {
		return false
	}
	var r replayJSON
	if json.Unmarshal(data, &r) != nil {
		return false
	}
	for k := range r.Values {
		if strings.HasPrefix(k, "choice:disk:") || strings.HasPrefix(k, "disk:") {
			return true
		}
	}
	return false
}
