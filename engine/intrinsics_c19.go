package main

// C19 (nsq_to_file): the disk, gzip, consumer, ticker and clock models are ordinary Go stubs in
// the harness (verifrt.Stub); the only engine-side piece is the no-op for verifrt.FreeRun,
// which natively switches the schedule-replay baton off (the C19 harnesses synchronise with the
// router goroutines themselves).

func init() {
	intrinsics[rtPkg+"FreeRun"] = func(in *Interp, fr *frame, args []value) value { return nil }
}
