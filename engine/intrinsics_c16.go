package main

// Intrinsics added for C16 (nsqd <-> nsqlookupd): both are harness-runtime helpers, no
// environment contract is modelled here.

func init() {
	// verifrt.InitPackage(path): run the variable initialisers of a dependency package that is
	// not in initPackages (go-nsq: MagicV1, byteSpace, byteNewLine).
	intrinsics[rtPkg+"InitPackage"] = func(in *Interp, fr *frame, args []value) value {
		path := in.argStr(args[0])
		p := in.prog.ImportedPackage(path)
		if p == nil {
			in.unsupported("InitPackage: package %s is not loaded", path)
		}
		saved := in.h.Funcs
		in.h.Funcs = map[string]bool{}
		in.runPkgInit(p)
		in.h.Funcs = saved
		return nil
	}
	// verifrt.NativeClock: native replay only.
	intrinsics[rtPkg+"NativeClock"] = func(in *Interp, fr *frame, args []value) value { return nil }
	intrinsics[rtPkg+"NativeClockUsed"] = func(in *Interp, fr *frame, args []value) value { return in.tt.Const(64, 0) }
}
