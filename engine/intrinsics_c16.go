package main

import "go/token"

// Intrinsics added for C16 (nsqd <-> nsqlookupd): both are harness-runtime helpers, no
// environment contract is modelled here.

func init() {
	// verifrt.InitPackage(path): run the variable initialisers of a dependency package that is
	// not in initPackages (go-nsq: MagicV1, byteSpace, byteNewLine).
	intrinsics[rtPkg+"InitPackage"] = func(in *Interp, fr *frame, args []value) value {
		path := in.argStr(args[0])
		p := in.prog.ImportedPackage(path)
		if p == nil {
			in.unsupported("InitPackage: package %s is not loaded", path)
		}
		saved := in.h.Funcs
		in.h.Funcs = map[string]bool{}
		in.runPkgInit(p)
		in.h.Funcs = saved
		return nil
	}
	// verifrt.NativeClock: native replay only.
	intrinsics[rtPkg+"NativeClock"] = func(in *Interp, fr *frame, args []value) value { return nil }
	intrinsics[rtPkg+"NativeClockUsed"] = func(in *Interp, fr *frame, args []value) value { return in.tt.Const(64, 0) }
	// verifrt.Rest(): deterministic quiescence. The calling thread repeatedly hands the baton to
	// the lowest-numbered runnable thread and hides every other thread from the scheduler while
	// it runs (their wait predicates are masked), so sched.go's reschedule never sees more than
	// one candidate and makes no decision. One canonical run-to-block schedule; harnesses that
	// use it do not claim anything about other interleavings.
	intrinsics[rtPkg+"Rest"] = func(in *Interp, fr *frame, args []value) value {
		self := in.cur
		in.h.Bounds["canonical-schedule(Rest)"] = 1
		for round := 0; round < 100000; round++ {
			var next *thread
			for _, t := range in.threads {
				if t == self || t.done || t.joiner {
					continue
				}
				if t.enabled() {
					next = t
					break
				}
			}
			if next == nil {
				in.hbBarrier()
				return nil
			}
			type saved struct {
				t *thread
				b func() bool
			}
			var masked []saved
			for _, t := range in.threads {
				if t == self || t == next || t.done {
					continue
				}
				masked = append(masked, saved{t, t.blocked})
				t.blocked = func() bool { return false }
			}
			self.joiner = true
			self.blocked = func() bool { return true }
			self.desc = "Rest"
			func() {
				defer func() {
					self.blocked = nil
					self.joiner = false
					for _, m := range masked {
						m.t.blocked = m.b
					}
				}()
				in.reschedule(self, "rest", token.NoPos)
			}()
		}
		in.unsupported("Rest: no quiescence after 100000 rounds")
		return nil
	}
}
