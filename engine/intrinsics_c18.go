package main

// Intrinsics added for C18 (nsqadmin cluster view).

func init() {
	// verifrt.JSONUnmarshal(data, v): the encoding/json contract model (engine/json.go) under a
	// second name. A harness that installs its own function as the Stub of encoding/json.Unmarshal
	// (to give `json.Unmarshal(body, &v)` with v an interface{} holding a pointer - the idiom of
	// http_api.Client.GETV1 - the meaning the real decoder gives it: decode into that pointer)
	// needs a way to reach the model from inside the stub. Looked up at call time because json.go
	// registers its intrinsics after this file.
	intrinsics[rtPkg+"JSONUnmarshal"] = func(in *Interp, fr *frame, args []value) value {
		return intrinsics["encoding/json.Unmarshal"](in, fr, args)
	}
}
